"""C10 -- number to text equals the reference formatting for every value and precision.

Proof (partial, see coq/Properties_C10.v): integers exact for all widths and
signs, digit tables, specials, append-only.  The real-valued claim is a
Definition with refuted witnesses; it is covered by the differential run:
real code vs extracted model (bit for bit) and vs the reference formatter of
coq/DigitModelSpec.v (exact decimal expansion, round-half-even)."""
import json
import math
import random

import vlib
from props import digitlib as dl

PROP = "C10"
PROP_V = "Properties_C10.v"
PREFIXES = ["-", "-", "-", dl.units("ab"), dl.units("x=1.5;"), dl.units("9"), dl.units("0.")]


_COMBOS = None


def early_drop_combos():
    """(positive_exp, precision) of doubles below 1 for which realToString drops at least three whole 64-bit words
    early and only a short final shift (34..41 bits, the minimum reachable at precision <= 40) remains:
    simulation of the loop bounds only"""
    global _COMBOS
    if _COMBOS is not None:
        return _COMBOS
    res = []
    p5 = 5 ** 27
    for pe in range(60, 1075, 1):
        for pp in range(0, 41):
            digits = (pe * 30103) // 100000 + 1
            needed = digits + pp + 1
            fl0 = 52 + pe
            if fl0 <= needed:
                continue
            shift = fl0 - needed
            if shift < 64:
                continue
            b = (1 << 52) | 0x5A5A5A5A5A5A5
            times = needed
            max_index = pp // 19 + 2
            drops = 0
            while times >= 27:
                b *= p5
                if (b.bit_length() - 1) // 64 >= max_index and shift >= 64:
                    b >>= 64
                    shift -= 64
                    drops += 1
                times -= 27
            if drops >= 3 and shift <= 41:
                res.append((pe, pp))
    _COMBOS = res
    return res


def dyadic5(rng, n):
    """m / 2^k below 1 whose decimal expansion has a 5 at position p+1, non-zero digits below it, and few enough
    digits that all of them are in the stream (no bits dropped): the sticky test over the lower digits decides"""
    out = []
    tries = 0
    while len(out) < n and tries < 200000:
        tries += 1
        k = rng.randrange(4, 40)
        m = rng.randrange(1, 1 << min(k, 30)) | 1
        dec = str(m * 5 ** k).rjust(k, "0")
        if len(dec) > k:
            continue
        x = m / float(1 << k)
        mant, ex = math.frexp(x)
        pe = 1 - ex
        if pe <= 0:
            continue
        digits = (pe * 30103) // 100000 + 1
        for j in range(1, k):
            if dec[j - 1] == "5" and k <= digits + j and pe + (m.bit_length() - 1) == k:
                out.append((x, j - 1))
                break
    return out


def gen_cases(rng, tier, boost=1):
    cases = []
    dist = {"double": 0, "float": 0, "int": 0, "special": 0}
    nd = (5000 if tier == "quick" else 120000) * boost
    nf = (1500 if tier == "quick" else 40000) * boost
    ni = (1500 if tier == "quick" else 30000) * boost
    for b in dl.SPECIAL_D:
        for fmt in (0, 1, 2):
            for p in (0, 1, 2, 6, 17, 40):
                cases.append("F %d %d %d %d %s" % (rng.randrange(3), fmt, p, b, rng.choice(PREFIXES)))
                dist["special"] += 1
    for b in dl.SPECIAL_F:
        for fmt in (0, 1, 2):
            for p in (0, 1, 6, 9):
                cases.append("G %d %d %d %d %s" % (rng.randrange(3), fmt, p, b, rng.choice(PREFIXES)))
                dist["special"] += 1
    for _ in range(nd):
        b = dl.rand_double_bits(rng)
        fmt = rng.randrange(3)
        p = rng.choice([0, 1, 2, 3, 6, 15, 17]) if rng.random() < 0.4 else rng.randrange(0, 41)
        # huge values in fixed notation print hundreds of digits: keep a share, not all
        w = rng.choice([0, 0, 0, 1, 2])
        cases.append("F %d %d %d %d %s" % (w, fmt, p, b, rng.choice(PREFIXES)))
        dist["double"] += 1
    # targeted at the rounding decision (D49): exact ties, a 5 with non-zero digits below it in the
    # stream, odd integers ending in 5, and exponents where realToString drops whole low words
    ntie = (700 if tier == "quick" else 15000) * boost
    dist["dyadic"] = dist["int5"] = dist["earlydrop"] = 0
    for _ in range(ntie):
        x = rng.randrange(1, 1 << rng.randrange(1, 21)) / float(1 << rng.randrange(0, 21))
        cases.append("F 0 %d %d %d -" % (rng.randrange(3), rng.randrange(0, 8), dl.dbits(x)))
        dist["dyadic"] += 1
        nd = rng.randrange(2, 16)
        j = rng.randrange(0, nd - 1)
        hi = dl.rand_digits(rng, nd - j - 1)
        lo = rng.choice(["0" * j, dl.rand_digits(rng, j, False) if j else "", (rng.choice("123456789") + "0" * (j - 1)) if j else ""])
        v = int(hi + "5" + lo)
        cases.append("F 0 0 %d %d -" % (nd - j - 1, dl.dbits(float(v))))
        if j >= 1:
            cases.append("F 0 %d %d %d -" % (rng.choice([1, 2]), 0, dl.dbits(v / float(1 << 1))))
        dist["int5"] += 1
    for (x, pp) in dyadic5(rng, ntie // 2):
        cases.append("F 0 %d %d %d -" % (rng.choice([1, 2]), pp, dl.dbits(x)))
        dist["dyadic"] += 1
    combos = early_drop_combos()
    for _ in range(2 * ntie):
        pe, pp = rng.choice(combos)
        be = 1023 - pe
        if be < 1:
            continue
        bits = (be << 52) | rng.getrandbits(52) | 1
        cases.append("F 0 %d %d %d -" % (rng.randrange(3), pp, bits))
        dist["earlydrop"] += 1
    # short decimal mantissas ending in 5, scaled by 10^e over the whole exponent range, printed with one
    # digit less than the mantissa has (the rounding digit is that 5; whether the binary value lies above
    # or below the decimal tie depends on digits dropped dozens of decimal places further down -- the
    # "something non-zero was dropped" flag has to survive every drop step), all three formats
    dist["dec5"] = 0
    for _ in range((1500 if tier == "quick" else 40000) * boost):
        nd = rng.randrange(1, 6)
        mant = (dl.rand_digits(rng, nd - 1) if nd > 1 else "") + "5"
        e = rng.choice([rng.randrange(20, 60), rng.randrange(20, 300), rng.randrange(-300, -5), rng.randrange(-5, 20)])
        try:
            x = float(mant[0] + ("." + mant[1:] if len(mant) > 1 else "") + "e" + str(e))
        except OverflowError:
            continue
        if x == 0.0 or x == float("inf"):
            continue
        fmt = rng.choice([0, 0, 0, 1, 2])
        prec = (nd - 1) if fmt == 0 else max(0, min(40, (nd - 1) - e))
        if fmt == 0 and prec == 0:
            prec = 1
        cases.append("F 0 %d %d %d -" % (fmt, prec, dl.dbits(x)))
        dist["dec5"] += 1
    # short mantissas m * 2^k (m odd, at most 10 bits), every binary exponent incl. subnormals: the product with
    # powers of five crosses a limb boundary with very few bits to spare, which is where the early drop of
    # low 64-bit words in realToString loses accuracy (D94) and where a wrong drop guard empties the number
    nshort = (2500 if tier == "quick" else 60000) * boost
    dist["short_mantissa_double"] = dist["short_mantissa_float"] = dist["tiny_float"] = 0
    hot_p = [16, 17, 18, 19, 20, 35, 36, 37, 38, 39, 40]
    for _ in range(nshort):
        m = rng.randrange(1, 1024) | 1
        if rng.random() < 0.5:
            m = rng.randrange(1, 64) | 1
        k = rng.randrange(-1074, 971 - m.bit_length())
        bits = dl.dbits(math.ldexp(float(m), k))
        pp = rng.choice(hot_p) if rng.random() < 0.7 else rng.randrange(0, 41)
        cases.append("F 0 %d %d %d -" % (rng.randrange(3), pp, bits))
        dist["short_mantissa_double"] += 1
    for _ in range(nshort // 2):
        m = rng.randrange(1, 1024) | 1
        if rng.random() < 0.5:
            m = rng.randrange(1, 64) | 1
        k = rng.randrange(-149, 128 - m.bit_length())
        x = math.ldexp(float(m), k)
        pp = rng.choice(hot_p) if rng.random() < 0.7 else rng.randrange(0, 41)
        cases.append("G 0 %d %d %d -" % (rng.randrange(3), pp, dl.fbits(x)))
        dist["short_mantissa_float"] += 1
    for _ in range(nshort // 2):
        # subnormal and tiny floats (any mantissa) at 30..40 digits
        b = rng.getrandbits(23) if rng.random() < 0.6 else (rng.randrange(1, 40) << 23) | rng.getrandbits(23)
        if b == 0:
            b = 1
        cases.append("G 0 %d %d %d -" % (rng.randrange(3), rng.randrange(30, 41), b))
        dist["tiny_float"] += 1
    for _ in range(nf):
        b = dl.rand_float_bits(rng)
        cases.append("G %d %d %d %d %s" % (rng.choice([0, 0, 1, 2]), rng.randrange(3), rng.choice([0, 1, 2, 6, 9, rng.randrange(0, 41)]), b, rng.choice(PREFIXES)))
        dist["float"] += 1
    for _ in range(ni):
        bw = rng.choice([8, 16, 32, 64])
        sg = rng.randrange(2)
        k = rng.random()
        if k < 0.25:
            pat = rng.choice([0, 1, 9, 10, 99, 100, 101, (1 << bw) - 1, 1 << (bw - 1), (1 << (bw - 1)) - 1, (1 << (bw - 1)) + 1, (1 << bw) - 2])
        elif k < 0.5:
            pat = (10 ** rng.randrange(0, 20) + rng.randrange(-2, 3)) % (1 << bw)
        else:
            pat = rng.getrandbits(rng.randrange(1, bw + 1))
        cases.append("I %d %d %d %d %s" % (rng.choice([0, 0, 1, 2]), bw, sg, pat, rng.choice(PREFIXES)))
        dist["int"] += 1
    return cases, dist


def nontrivial(c):
    tk = c.split(" ")
    if tk[0] == "I":
        return int(tk[4]) >= 10
    b = int(tk[4])
    return (b & ((1 << 63) - 1 if tk[0] == "F" else (1 << 31) - 1)) != 0


def check(tier):
    rep = vlib.Report(PROP, tier, "proof")
    rng = random.Random(rep.seed)
    st = vlib.proof_stage(rep, PROP_V, [dl.COMP], tables=dl.TABLES, clean=False)
    proof_ok = st["ok"]
    theorems = st["theorems"]
    exe = dl.build_driver(rep, PROP)
    if exe is None:
        rep.cov = {"obligations": max(1, len(theorems)), "discharged": 0, "checker_cmd": "make -C coq " + PROP_V + "o", "trusted_base": dl.TRUSTED}
        return rep.finish()
    listed = dl.known_classes(PROP)
    cases, dist = gen_cases(rng, tier, 1 if proof_ok else 4)
    cases = dl.corpus_cases(PROP) + cases
    run = dl.run_cases(exe, cases)
    cnt, mism, fails = dl.judge(PROP, rep, run, proof_ok, listed)
    if not fails and mism and tier == "quick":
        # enlarge the search before reporting a broken correspondence
        more, _ = gen_cases(random.Random(rep.seed + 1000), tier, 4)
        run2 = dl.run_cases(exe, more)
        cnt2, mism2, fails2 = dl.judge(PROP, rep, run2, proof_ok, listed)
        fails += fails2
        mism += mism2
        for k in cnt:
            cnt[k] += cnt2[k]
        cases += more
    dl.report(PROP, rep, cnt, mism, fails, proof_ok, st, PROP_V + "o")
    rep.cov = {
        "obligations": len(theorems) if theorems else 1,
        "discharged": len(theorems) if proof_ok else 0,
        "checker_cmd": "cd coq && make %so (coqc 8.16.1) ; coqc -Q . Qv %s for Print Assumptions" % (PROP_V, PROP_V),
        "trusted_base": dl.TRUSTED,
        "theorems": [{"name": n, "assumptions": a} for n, a in theorems],
        "evaluations": len(cases),
        "distinct_nontrivial": len({c for c in cases if nontrivial(c)}),
        "rule": "doubles: uniform bit patterns, per binade, mantissa edges, subnormals, 10^k and 2^k +- 3 ulp, decimal-looking values, x.5 halves, integers, dyadic rationals m/2^k, integers with a 5 at the rounding position (exact ties and near-ties), exponents at which realToString drops whole 64-bit words, short mantissas m * 2^k (m odd < 1024) over all binary exponents incl. subnormals with emphasis on precisions 16..20 and 35..40, subnormal / tiny floats at 30..40 digits; floats likewise; precision 0..40 x Default/Fixed/SemiFixed; destination streams empty and non-empty; char / char16_t / char32_t; integers of 8/16/32/64 bits, signed and unsigned, boundaries and 10^k +- 2. non-trivial = value not +-0 / integer with at least two digits",
        "samples": [cases[0], cases[len(cases) // 2], cases[-1]],
        "input_distribution": dist,
        "traces_validated_against_impl": len(run.rows),
        "oracle_failures": cnt["oracle_fail"],
        "known_finding_cases": cnt["known"],
        "model_impl_mismatches": cnt["mismatch"],
        "crashes": cnt["crash"],
        "reference_vs_snprintf_differences (diagnostic, doubles)": cnt["spec_vs_libc_diff"],
        "classifier": "the Gallina transliteration of realToString (bit-for-bit equality with the implementation is required for a known-finding classification)",
    }
    rep.assumptions = [
        "theorems are about coq/DigitModel.v; the C++ is tied by gen/Tables_digit.v and the finite differential run reported here",
        "the claim 'text = printf reference for every double and precision' is NOT proved (Definition c10_real_matches_reference): after findings/D48 and D49 no counterexample is known; PROVED: the scaled big integer and the round_up flag are exact for every value with |value| >= 1 (c10_scale_exact_integer_path / c10_scale_exact_fraction_path_ge1); the digit run is the exact decimal expansion (c10_big_to_string_digits, c10_digit_run_exact_*) and the rounding decision is round-half-even on the exact value (c10_round_decision_is_half_even); NOT proved: values below 1 (early 64-bit word drops), the assembly of the text after the rounding decision (carry, zero give-back, point, padding) -- tested against the exact reference on every generated case",
        "BigInt is abstracted to its value (no overflow observed: the model reports an explicit error otherwise)",
        "describes /repo with findings/D28, D33, D41..D46, D48, D49, D94 applied (all fix: commits)",
    ]
    return rep.finish()


def replay(path):
    d = json.load(open(path))
    case = d.get("case") or (d.get("first_mismatch") or {}).get("case")
    if not case:
        print("replay names a broken obligation, not an input:", d.get("broken"))
        return 1
    exe, msg = vlib.build_cpp("drv_digit", "drv_digit.cpp")
    run = dl.run_cases(exe, [case])
    (c, full, i, m, code, ref) = run.rows[0]
    print("case:", case, "\nimpl:", i, dl.text_of(i.split("|")[0]), "\nmodel:", m, "\noracle code:", code, "\nreference:", dl.text_of(ref) if ref else None)
    return 0 if (code == 1 and i == m) else 1
