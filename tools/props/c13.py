"""C13 -- the hash array is an insertion-ordered map under every operation sequence.

Proof: coq/Properties_C13.v (unbounded: induction over the operation list, arbitrary
       hash function with H k <> 0, any collision pattern).
Tie:   differential run of cpp/drv_htab.cpp (HArray<String,String>, HArray<String,Value>,
       HList<String>) against the extracted model (coq/HtabModel.v) on operation
       histories; every step's observable state is judged by the extracted
       association-list specification (c13_oracle)."""
import json
import os
import random
import itertools

import vlib

PROP = "C13"
COMP = "htab"
MASKS = [1, 3, 7, 15, 31, 63]


def fmt_key(units):
    return ",".join(str(u) for u in units) if units else "-"


def candidate_keys(rng):
    pool = []
    base = [97, 98, 99, 0, 255, 128]
    for n in range(0, 5):
        for tup in itertools.product(base, repeat=n):
            pool.append(tuple(tup))
    for _ in range(1500):
        n = rng.choice([1, 2, 3, 5, 6, 7, 8, 9, 12, 16, 23])
        pool.append(tuple(rng.choice([0, 0, 1, 65, 97, 127, 128, 200, 255, rng.randrange(256)]) for _ in range(n)))
    return sorted(set(pool))


def hash_stage(rng, exe, mexe):
    """hash every candidate key with the implementation (and the model);
    returns (pool, impl hashes, #agree with model, oracle failures)"""
    pool = candidate_keys(rng)
    lines = ["H " + fmt_key(k) for k in pool]
    impl, crashes = vlib.run_sharded(exe, [], lines, shards=4)
    fed = [l + " " + (i.split(" ")[0] if i else "CRASH") for l, i in zip(lines, impl)]
    model, _ = vlib.run_sharded(mexe, [], fed, shards=4)
    hashes = {}
    agree = 0
    bad = []
    for k, l, i, m in zip(pool, lines, impl, model):
        parts = m.rsplit(" ", 1)
        if len(parts) != 2 or parts[1] != "1" or not i.isdigit():
            bad.append((l, i, m))
            continue
        hashes[k] = int(i)
        if parts[0] == i:
            agree += 1
    return pool, hashes, agree, bad


def collision_groups(hashes):
    groups = {}
    for m in MASKS:
        g = {}
        for k, h in hashes.items():
            g.setdefault(h & m, []).append(k)
        groups[m] = [v for v in g.values() if len(v) >= 3]
    return groups


def pick_alphabet(rng, groups, hashes):
    n = rng.randrange(3, 9)
    r = rng.random()
    keys = []
    pick_alphabet.last = "random_alphabet"
    if r < 0.75 and hashes:
        m = rng.choice(MASKS)
        gs = groups.get(m) or []
        if gs:
            g = rng.choice(gs)
            # prefer short keys (readable replays) but keep some long ones
            g2 = sorted(g, key=lambda k: (len(k), rng.random()))
            cut = g2[: max(n * 3, 12)]
            keys = rng.sample(cut, min(n, len(cut)))
            pick_alphabet.last = "collision_alphabet"
    while len(keys) < n:
        ln = rng.choice([0, 1, 1, 2, 2, 3, 5, 9])
        k = tuple(rng.choice([0, 97, 98, 255, rng.randrange(256)]) for _ in range(ln))
        if k not in keys:
            keys.append(k)
    if rng.random() < 0.3 and () not in keys:
        keys[rng.randrange(len(keys))] = ()
    if rng.random() < 0.3:
        # a key and its NUL-extended twin: Remove(const Char_T *) of the twin names the short key
        a = rng.randrange(len(keys))
        base = keys[a][:keys[a].index(0)] if 0 in keys[a] else keys[a]
        twin = base + (0, rng.choice([97, 98, 0, 255]))
        b = rng.randrange(len(keys))
        if b != a and twin not in keys and base == keys[a]:
            keys[b] = twin
    rng.shuffle(keys)
    return keys


class Mirror:
    """Python mirror of the association-list specification: used only to bias the
    generator towards meaningful arguments and to count non-trivial cases."""

    def __init__(self):
        self.l = []      # [key index, value]
        self.clean = True
        self.removed_then_inserted = False
        self.had_removal = False
        self.seen_all_removed = False     # ActualSize() == 0 while removed slots may remain (Size() != 0)
        self.seen_emptied = False         # Size() == 0 again after the table held entries
        self.had_entries = False

    def note(self):
        if self.l:
            self.had_entries = True
        elif self.had_entries:
            if self.clean:
                self.seen_emptied = True
            else:
                self.seen_all_removed = True

    def find(self, k):
        for i, kv in enumerate(self.l):
            if kv[0] == k:
                return i
        return -1

    def put(self, k, v):
        i = self.find(k)
        if i >= 0:
            self.l[i][1] = v
        else:
            self.l.append([k, v])
            if self.had_removal:
                self.removed_then_inserted = True

    def remove(self, k):
        i = self.find(k)
        if i >= 0:
            del self.l[i]
            self.clean = False
            self.had_removal = True


def sort_key(k):
    # String::operator< on char (signed), a proper prefix is less
    return tuple((b + 128) % 256 for b in k)


def gen_history(rng, nkeys, nops, inst, keys):
    """keys: the alphabet (byte tuples).  The mirror follows the specification exactly
    (incl. Sort), so that positional operations (RemoveIndex, shrinking Resize) are only
    emitted in states that cannot hold removed slots: elsewhere their effect depends on
    when growth dropped the tombstones, i.e. on the capacity policy."""
    mir = Mirror()
    ops = []
    hv = inst != 2
    prefix_free = True

    def val():
        return rng.randrange(1, 60) if hv else 0

    weights = [("I", 22), ("G", 8 if hv else 0), ("O", 4 if hv else 0), ("J", 4), ("R", 12), ("X", 5), ("Y", 4), ("N", 8), ("Z", 3),
               ("E", 3), ("C", 3), ("L", 2), ("T", 1), ("V", 1), ("W", 2), ("Q", 1), ("S", 4), ("P", 3), ("M", 2), ("U", 6), ("drain", 3)]
    names = [w[0] for w in weights]
    ws = [w[1] for w in weights]
    # a phase bias: sometimes a history that only grows, sometimes heavy removal
    for _ in range(nops):
        mir.note()
        c = rng.choices(names, ws)[0]
        k = rng.randrange(nkeys)
        if c == "drain":
            # remove every live key (sometimes all but one), by key or through its index: ActualSize() == 0 with
            # removed slots left, the state in which Sort / Clear / the next inserts meet stale structure
            victims = [kv[0] for kv in mir.l]
            rng.shuffle(victims)
            if victims and rng.random() < 0.3:
                victims.pop()
            for q in victims:
                ops.append(rng.choice(["R:%d:0", "R:%d:1", "Y:%d"]) % q)
                mir.remove(q)
                mir.note()
        elif c == "Q":
            ops.append("Q:%d" % rng.randrange(2))
            mir.l = []
            mir.clean = True
        elif c == "I":
            v = val()
            # all four Insert overloads ((Key&&|const Key&) x (Value&&|const Value&)); HList: Key&& / const Key&
            ops.append("I:%d:%d:%d" % (k, v, rng.randrange(4)))
            mir.put(k, v)
        elif c in ("G", "O"):
            v = val()
            ops.append("%s:%d:%d" % (c, k, v))
            mir.put(k, v)
        elif c == "J":
            ops.append("J:%d" % k)
            if mir.find(k) < 0:
                mir.put(k, 0)
        elif c == "R":
            if mir.l and rng.random() < 0.7:
                k = rng.choice(mir.l)[0]
            var = rng.choice([0, 1, 2, 2])
            ops.append("R:%d:%d" % (k, var))
            if var == 2:
                # Remove(const Char_T *): the key up to its first NUL (which may be another key of the alphabet, or none)
                cut = keys[k][:keys[k].index(0)] if 0 in keys[k] else keys[k]
                if cut in keys:
                    mir.remove(keys.index(cut))
            else:
                mir.remove(k)
        elif c == "X":
            if not mir.clean:
                ops.append("C")
                mir.clean = True
            i = rng.randrange(0, len(mir.l) + 2)
            ops.append("X:%d" % i)
            if i < len(mir.l):
                del mir.l[i]
                mir.clean = False
                mir.had_removal = True
        elif c == "Y":
            if mir.l and rng.random() < 0.8:
                k = rng.choice(mir.l)[0]
            ops.append("Y:%d" % k)
            mir.remove(k)
        elif c == "N":
            a = rng.choice(mir.l)[0] if (mir.l and rng.random() < 0.8) else k
            b = rng.randrange(nkeys)
            ops.append("N:%d:%d:%d" % (a, b, rng.randrange(2)))
            i = mir.find(a)
            if i >= 0 and mir.find(b) < 0:
                mir.l[i][0] = b
        elif c == "Z":
            n = rng.choice([0, 1, 2, len(mir.l), len(mir.l) + 1, max(0, len(mir.l) - 1), rng.randrange(0, 20)])
            if not mir.clean and mir.l and n != 0:
                ops.append("C")
                mir.clean = True
            ops.append("Z:%d" % n)
            mir.l = mir.l[:n]
            mir.clean = True
        elif c == "E":
            ops.append("E:%d" % rng.choice([0, 1, 2, 3, 5, 9, 17]))
        elif c == "C":
            ops.append("C")
            mir.clean = True
        elif c == "L":
            ops.append("L")
            mir.l = []
            mir.clean = True
        elif c == "T":
            ops.append("T")
            mir.l = []
            mir.clean = True
        elif c == "V":
            ops.append("V:%d" % rng.choice([0, 1, 2, 3, 4, 7, 8, 9]))
            mir.l = []
            mir.clean = True
        elif c == "W":
            # h = Table(n): explicit HashTable(SizeT) through the inherited constructors
            ops.append("W:%d" % rng.choice([0, 1, 2, 3, 5, 8, 9, 17]))
            mir.l = []
            mir.clean = True
        elif c == "S":
            asc = rng.randrange(2)
            ops.append("S:%d" % asc)
            mir.l.sort(key=lambda kv: sort_key(keys[kv[0]]), reverse=(asc == 0))
        elif c == "P":
            ops.append("P")
            mir.clean = True
        elif c == "M":
            ops.append("M")
        elif c == "U":
            m = rng.randrange(0, 6)
            ins = []
            for _ in range(m):
                ins.append((rng.randrange(nkeys), val()))
            rm = []
            if ins and rng.random() < 0.4:
                rm = [rng.choice(ins)[0] for _ in range(rng.randrange(1, 3))]
            src = Mirror()
            for (a, v) in ins:
                src.put(a, v)
            for a in rm:
                src.remove(a)
            ops.append("U:%d:%s:%s" % (rng.randrange(2), ".".join("%d.%d" % p for p in ins) if ins else "_",
                                       ".".join(str(a) for a in rm) if rm else "_"))
            for (a, v) in src.l:
                mir.put(a, v)
    mir.note()
    return ops[:nops], mir


def gen_scenario(rng, hashes, inst):
    """Refill after emptying: fill, remove every key (or all but one) by key / by index, optionally Sort (both
    directions) and / or Compress / Resize / Expect, then Clear / Reset / Reserve / h = Table(n) / assignment from an
    empty table / nothing, then re-insert keys CHOSEN BY THEIR HASH -- bucket 0 at every capacity up to 16
    (hash & 15 == 0) and a non-zero bucket at every capacity (hash odd) -- in both orders, then removals (lookups
    of every key of the alphabet follow each step).  Stale structure left behind by the emptying (heads, links of
    removed slots chained by generateHash after a Sort) shows as a key that is stored but not found."""
    hv = inst != 2
    zs = [k for k, h in hashes.items() if h & 15 == 0 and len(k) <= 6]
    od = [k for k, h in hashes.items() if h & 1 == 1 and len(k) <= 6]
    ot = [k for k, h in hashes.items() if h & 15 not in (0,) and h & 1 == 0 and len(k) <= 6]
    keys = rng.sample(zs, min(len(zs), rng.randrange(2, 4))) + rng.sample(od, min(len(od), rng.randrange(2, 4))) + \
        rng.sample(ot, min(len(ot), rng.randrange(0, 3)))
    keys = list(dict.fromkeys(keys))
    nz = [i for i, k in enumerate(keys) if hashes[k] & 15 == 0]
    no = [i for i, k in enumerate(keys) if hashes[k] & 1 == 1]
    mir = Mirror()
    ops = []

    def val():
        return rng.randrange(1, 60) if hv else 0

    def ins(k):
        v = val()
        c = rng.choice(["I", "I", "G", "O", "J"]) if hv else rng.choice(["I", "I", "J"])
        if c == "I":
            ops.append("I:%d:%d:%d" % (k, v, rng.randrange(4)))
            mir.put(k, v)
        elif c == "J":
            ops.append("J:%d" % k)
            if mir.find(k) < 0:
                mir.put(k, 0)
        else:
            ops.append("%s:%d:%d" % (c, k, v))
            mir.put(k, v)
        mir.note()

    def rem(k):
        if mir.clean and rng.random() < 0.25 and mir.find(k) >= 0:
            ops.append("X:%d" % mir.find(k))
        else:
            ops.append(rng.choice(["R:%d:0", "R:%d:1", "Y:%d"]) % k)
        mir.remove(k)
        mir.note()

    for _cycle in range(rng.randrange(1, 4)):
        # fill
        fill = list(range(len(keys)))
        rng.shuffle(fill)
        for k in fill[: rng.randrange(1, len(keys) + 1)]:
            ins(k)
        # empty by removal (all, or all but one)
        victims = [kv[0] for kv in mir.l]
        rng.shuffle(victims)
        if victims and rng.random() < 0.35:
            victims.pop()
        for k in victims:
            rem(k)
        # optionally sort / compress / resize / expect in between
        for c in rng.sample(["S0", "S1", "C", "Z", "E", "S0", "S1"], rng.choice([0, 1, 1, 1, 2])):
            if c[0] == "S":
                asc = int(c[1])
                ops.append("S:%d" % asc)
                mir.l.sort(key=lambda kv: sort_key(keys[kv[0]]), reverse=(asc == 0))
            elif c == "C":
                ops.append("C")
                mir.clean = True
            elif c == "Z":
                if mir.clean or not mir.l:
                    n = rng.choice([0, 1, len(mir.l), len(mir.l) + 2])
                    ops.append("Z:%d" % n)
                    mir.l = mir.l[:n]
                    mir.clean = True
            else:
                ops.append("E:%d" % rng.choice([0, 1, 3, 9]))
        # clear / reset / reserve / fresh table / assignment from an empty table / nothing
        c = rng.choice(["L", "L", "L", "T", "V", "W", "Q", "Q", "", ""])
        if c:
            ops.append({"L": "L", "T": "T", "V": "V:%d" % rng.choice([0, 2, 4, 9]), "W": "W:%d" % rng.choice([0, 1, 3, 8]),
                        "Q": "Q:%d" % rng.randrange(2)}[c])
            mir.l = []
            mir.clean = True
        mir.note()
        # refill with keys chosen by bucket, both orders
        if nz and no:
            a, b = rng.choice(no), rng.choice(nz)
            first = [a, b] if rng.random() < 0.5 else [b, a]
        else:
            first = []
        rest = [k for k in range(len(keys)) if k not in first]
        rng.shuffle(rest)
        order = first + rest[: rng.randrange(0, len(rest) + 1)]
        for k in order:
            ins(k)
        # removals (and re-insertions); every step is followed by lookups of all keys
        rm = list(order)
        if rng.random() < 0.5:
            rng.shuffle(rm)
        for k in rm[: rng.randrange(1, len(rm) + 1)]:
            rem(k)
            if rng.random() < 0.2:
                ins(rng.randrange(len(keys)))
    return keys, ops, mir


def make_case(inst, keys, ops):
    return "T %d %s %s" % (inst, "/".join(fmt_key(k) for k in keys), ";".join(ops) if ops else "-")


def gen_cases(rng, tier, groups, hashes, boost=1):
    cases = []
    dist = {"collision_alphabet": 0, "random_alphabet": 0, "short": 0, "long": 0, "inst0": 0, "inst1": 0, "inst2": 0,
            "scenario_refill_after_emptying": 0, "random_histories": 0, "random_reaching_ActualSize0_with_removed_slots": 0,
            "random_reaching_Size0_again": 0}
    nontrivial = 0
    if tier == "quick":
        plan = [(5000 * boost, 60)]
    else:
        plan = [(36000 * boost, 60), (5000 * boost, 400)]
    for (count, maxops) in plan:
        for _ in range(count):
            inst = rng.choice([0, 0, 1, 2])
            keys = pick_alphabet(rng, groups, hashes)
            nops = rng.choice([maxops, maxops, rng.randrange(1, maxops + 1), rng.randrange(1, 16)])
            if hashes and rng.random() < 0.12:
                keys, ops, mir = gen_scenario(rng, hashes, inst)
                dist["scenario_refill_after_emptying"] += 1
            else:
                ops, mir = gen_history(rng, len(keys), nops, inst, keys)
                dist[pick_alphabet.last] += 1
                dist["random_histories"] += 1
                dist["random_reaching_ActualSize0_with_removed_slots"] += 1 if mir.seen_all_removed else 0
                dist["random_reaching_Size0_again"] += 1 if mir.seen_emptied else 0
            cases.append(make_case(inst, keys, ops))
            dist["inst%d" % inst] += 1
            dist["long" if maxops > 60 else "short"] += 1
            if mir.removed_then_inserted:
                nontrivial += 1
    for k in ("random_reaching_ActualSize0_with_removed_slots", "random_reaching_Size0_again"):
        dist["fraction_" + k] = round(dist[k] / max(1, dist["random_histories"]), 3)
    return cases, dist, nontrivial


def corpus_cases():
    res = []
    p = os.path.join(vlib.ROOT, "corpus", PROP, "cases.txt")
    if os.path.exists(p):
        for line in open(p):
            line = line.strip()
            if line and not line.startswith("#"):
                res.append(line)
    return res


def hash_eq(i, mo):
    # H lines: the hash VALUE is not a property-relevant observable (only "top bit set" is,
    # and that is the oracle's verdict); agreement of the values is reported in the evidence.
    if i.isdigit() and mo.isdigit():
        return True
    return i == mo


def minimise(exe, case, want_oracle_fail):
    tk = case.split(" ")
    ops = tk[3].split(";") if tk[3] != "-" else []

    def fails(o):
        c = " ".join(tk[:3] + [";".join(o) if o else "-"])
        r = vlib.differential(COMP, exe, [c], eq=hash_eq)
        return bool(r.oracle_fail) if want_oracle_fail else bool(r.oracle_fail or r.mismatch)

    small = vlib.shrink_list(ops, fails, max_steps=250)
    return " ".join(tk[:3] + [";".join(small) if small else "-"])


def first_bad_step(i, m):
    a, b = i.split(";"), m.split(";")
    for n, (x, y) in enumerate(zip(a, b)):
        if x != y:
            return n
    return min(len(a), len(b))


TRUSTED = vlib.TRUSTED_BASE_COMMON[:2] + vlib.TRUSTED_BASE_COMMON[3:] + [
    "modelled: Include/HashTable.hpp (all members), HArray.hpp / HList.hpp (Insert, Get, operator[], operator+= by copy and by move), StringUtils::Hash for char, Memory::Sort (quicksort, transliterated); object lifetime (construct/dispose/move of keys and values) is covered only by the ASan/LSan run of the driver",
]


def check(tier):
    rep = vlib.Report(PROP, tier, "proof")
    rng = random.Random(rep.seed)
    st = vlib.proof_stage(rep, "Properties_C13.v", [COMP], tables=())
    theorems = st["theorems"]
    proof_ok = st["ok"]
    checker = "cd coq && make Properties_C13.vo  (coqc 8.16.1, full .vo build) ; coqc -Q . Qv Properties_C13.v for Print Assumptions"

    exe, msg = vlib.build_cpp("drv_htab", "drv_htab.cpp")
    mexe, mmsg = vlib.build_ocaml(COMP) if st["extract_ok"] else (None, "extraction failed")
    if exe is None or mexe is None:
        rep.violation({"broken": "cpp/drv_htab.cpp does not build against the current tree" if exe is None else "extracted model does not build",
                       "log": msg if exe is None else (mmsg + st["log"][-2000:])}, no_input=True)
        rep.cov = {"obligations": max(1, len(theorems)), "discharged": 0, "checker_cmd": checker, "trusted_base": TRUSTED}
        return rep.finish()

    pool, hashes, agree, hbad = hash_stage(rng, exe, mexe)
    found_input = False
    for (l, i, m) in hbad[:3]:
        found_input = True
        rep.violation({"component": "StringUtils::Hash", "case": l, "format": "H <key bytes>", "observed_impl": i, "model": m,
                       "oracle": "hash must have bit 31 set and fit 32 bits (0 is the removed-item mark)"})
    if agree != len(pool) and not hbad:
        rep.notes.append("modelled StringUtils::Hash differs from the implementation on %d of %d keys (not property-relevant: "
                         "collision alphabets are searched with the implementation's hash)" % (len(pool) - agree, len(pool)))
    groups = collision_groups(hashes)

    boost = 1 if proof_ok else 4
    cases, dist, nontrivial = gen_cases(rng, tier, groups, hashes, boost)
    cases = corpus_cases() + cases
    # pilot: a defect that hits almost every history (or crashes the driver) is reported from a
    # small batch instead of re-running thousands of crashing cases one by one
    npilot = len(corpus_cases()) + 150
    r = vlib.differential(COMP, exe, cases[:npilot], eq=hash_eq)
    if not (r.oracle_fail or r.crashes):
        r = vlib.differential(COMP, exe, cases, eq=hash_eq)
    else:
        cases = cases[:npilot]

    def report_failures(r):
        nonlocal found_input
        seen = set()
        for (c, i, m, tag) in r.oracle_fail[:50]:
            if len(seen) >= 3:
                break
            small = minimise(exe, c, True) if c.startswith("T ") else c
            if small in seen:
                continue
            seen.add(small)
            found_input = True
            rr = vlib.differential(COMP, exe, [small], eq=hash_eq)
            ii, mm = (rr.oracle_fail[0][1], rr.oracle_fail[0][2]) if rr.oracle_fail else (i, m)
            rep.violation({"component": "HashTable/HArray/HList", "case": small,
                           "format": "T <inst 0 HArray<String,String> | 1 HArray<String,Value> | 2 HList> <keys k0/k1/..> <ops> (see cpp/drv_htab.cpp)",
                           "observed_impl": ii, "model": mm, "first_differing_step_vs_model": first_bad_step(ii, mm),
                           "oracle": "association-list specification rejects the observed trace (Has/GetValue/GetKey/GetKeyIndex/ActualSize/iteration order after some step)",
                           "original_case": c if len(c) < 4000 else c[:4000] + "...", "model_agrees_with_impl": tag == "same",
                           "broken": None if proof_ok else "Properties_C13.vo"})

    report_failures(r)
    n_total = len(cases)
    if not found_input and (r.mismatch or r.bad or r.crashes or not proof_ok):
        # oracle satisfied everywhere, but tie or proof broken: enlarge the search
        cases2, dist2, nt2 = gen_cases(random.Random(rep.seed + 7919), tier, groups, hashes, boost=4 if tier == "quick" else 2)
        r2 = vlib.differential(COMP, exe, cases2, eq=hash_eq)
        n_total += len(cases2)
        report_failures(r2)
        if not found_input:
            what = []
            if not proof_ok:
                what.append("coq/Properties_C13.vo no longer builds (theorems c13_* not re-established)")
            mism = r.mismatch + r2.mismatch
            if mism:
                what.append("correspondence HtabModel.c13_step vs HashTable/HArray/HList differs on an observable the specification leaves open")
            if r.bad or r2.bad:
                what.append("driver output malformed")
            ex = None
            if mism:
                small = minimise(exe, mism[0][0], False)
                rr = vlib.differential(COMP, exe, [small], eq=hash_eq)
                ex = {"case": small, "impl": rr.mismatch[0][1] if rr.mismatch else mism[0][1], "model": rr.mismatch[0][2] if rr.mismatch else mism[0][2]}
            elif r.bad or r2.bad:
                b = (r.bad + r2.bad)[0]
                ex = {"case": b[0][:3000], "impl": b[1][:2000], "model": b[2][:2000]}
            rep.violation({"broken": what, "first_mismatch": ex, "coq_log": st["log"][-3000:] if not proof_ok else "",
                           "searched_cases": n_total}, no_input=True)

    steps = sum(c.count(";") + 1 for c in cases if c.startswith("T "))
    rep.cov = {
        "obligations": len(theorems) if theorems else 1,
        "discharged": len(theorems) if proof_ok else 0,
        "checker_cmd": checker,
        "trusted_base": TRUSTED,
        "theorems": [{"name": n, "assumptions": a} for n, a in theorems],
        "evaluations": n_total + len(pool),
        "distinct_nontrivial": nontrivial,
        "rule": "seeded random operation histories (<= %s operations; 17 operation kinds incl. merge by copy/move, rename, sort, resize, copy/move round trips) over alphabets of 3-8 keys, 75%% of them drawn from groups of keys whose implementation hashes agree modulo 2..64 (searched among %d candidate keys incl. the empty key, embedded NULs and bytes >= 128), the rest random bytes; three instances (HArray<String,String>, HArray<String,Value>, HList<String>); after EVERY step Has/GetValue/GetItem/GetKey/GetKeyIndex/ActualSize/iteration are compared with the model and judged by the association-list oracle; slot numbers only in states that cannot hold removed slots. Overloads and members that map to operations the model already has: the four HArray::Insert overloads (Key&&|const Key&) x (Value&&|const Value&) and HList::Insert(Key&&|const Key&) -> OInsert (the lvalue arguments must come back unchanged); Remove(ptr,len) / Remove(const Key&) / Remove(const Char_T*) -> ORemove (the C-string form names the key up to its first NUL; alphabets carry NUL-extended twins); h = Table(n) (explicit HashTable(SizeT)) -> OReserve n; GetValue(const Key&) and GetValue(ptr,len) must return the same pointer; begin()/end() of the non-const and const table (range-for) must visit Size() items, the live ones in the order and with the values of GetKey(i)/GetValue(i) (the model's get_slot sweep), a removed slot as Hash = 0 with the empty key and the default value. 12%% of the histories are refill-after-emptying scenarios (gen_scenario: every key removed by key / index, optional Sort / Compress / Resize, then Clear / Reset / Reserve / fresh or empty-assigned table, then re-insertion of keys chosen by the implementation's hash to hit bucket 0 and a non-zero bucket in both orders, then removals); the fraction of ordinary histories that reach ActualSize() == 0 with removed slots / Size() == 0 again is in input_distribution. non-trivial = a new key is inserted after a removal" % ("60" if tier == "quick" else "400", len(pool)),
        "samples": [cases[0][:300], cases[len(cases) // 2][:300], cases[-1][:300]],
        "input_distribution": dist,
        "operation_steps_checked": steps,
        "hash_keys_checked": len(pool),
        "hash_model_agrees_with_impl": agree,
        "traces_validated_against_impl": n_total,
        "oracle_failures": len(r.oracle_fail) + len(hbad),
        "model_impl_mismatches": len(r.mismatch),
        "crashes": len(r.crashes),
    }
    rep.assumptions = [
        "the theorems are about coq/HtabModel.v; the C++ is tied by the differential run reported here (finite)",
        "Char_T = char (signed), SizeT = 32 bit, sizes below 2^31",
        "Sort: requires the D3 fix of StringUtils::IsLess/IsGreater (a proper prefix is less); the model's key comparison key_ltb is that fixed order on signed chars (proved a strict total order); its agreement with the C++ operator< is tied by this run and is C15's subject",
        "RemoveIndex / shrinking Resize in a state that may hold removed slots have no position-free specification (positions depend on when growth dropped the tombstones): the generator issues them only after Compress, the oracle would accept any result consistent with 'one entry / a suffix removed'; RemoveIndex(GetKeyIndex(k)) is exercised in all states",
    ]
    return rep.finish()


def replay(path):
    d = json.load(open(path))
    case = d.get("case")
    if not case:
        print("replay names a broken obligation, not an input:", d.get("broken"))
        fm = d.get("first_mismatch")
        if fm and fm.get("case"):
            case = fm["case"]
        else:
            return 1
    exe, msg = vlib.build_cpp("drv_htab", "drv_htab.cpp")
    r = vlib.differential(COMP, exe, [case], eq=hash_eq)
    print("case:", case)
    for (c, i, m, tag) in r.oracle_fail:
        print("impl:", i, "\nmodel:", m, "\noracle: FAIL (first step differing from the model: %d)" % first_bad_step(i, m))
        return 1
    for (c, i, m) in r.mismatch:
        print("impl:", i, "\nmodel:", m, "\noracle: ok, model differs at step %d" % first_bad_step(i, m))
        return 1
    print("oracle ok, model agrees")
    return 0
