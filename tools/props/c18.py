"""C18 -- GroupBy partitions an array of objects by key value, wherever the key sits.

Proof: coq/Properties_C18.v (group_by = partition_by_key on every array of
       records that carry the key, by induction on the array; source unchanged;
       every record in exactly one group).
Tie:   the same driver and model as C12 (cpp/drv_value.cpp, ValueModel.v): a case
       is a history that builds an array of records (key at random positions,
       removed / undefined members, values of every scalar kind), then runs
       Value::GroupBy and renders <loop group=...>; the oracle is the extracted
       partition_by_key specification (run_spec18)."""
import random

import vlib
from props import c12
from props.c12 import enc_str, enc_target, s_units, rnd_scalar

PROP = "C18"
PROP_V = "Properties_C18.v"

# incl. sibling names that differ from another key only in their FIRST unit: StringUtils::Hash does not
# mix the first unit of keys of length >= 2, so "uid"/"gid"/"pid" and "k1"/"j1" collide on the full
# hash -- a lookup that trusts the hash alone files records under the wrong member
SAFE_KEYS = ["y", "m", "k1", "zz", "a", "b2", "Q", "uid", "gid", "pid", "j1", "az"]
WILD_KEYS = [[], [107, 0, 120], [34, 113], [233], [32], [121], [109]]


def key_value(rng, safe=False):
    """value of the grouping key: every scalar kind; small domains so that groups collide, also across kinds"""
    r = rng.random()
    if r < 0.22:
        return "6," + enc_str(s_units(rng.choice(["1", "2", "x", "ab", "true", "null", "2.5", "-3"] + ([] if safe else ["", "x y", "<&>"]))))
    if r < 0.42:
        return "3,%d" % rng.choice([0, 1, 2, 3, 18446744073709551615])
    if r < 0.57:
        return "4,%d" % rng.choice([-3, -1, 1, 2, -9223372036854775807])
    if r < 0.75:
        # reals in 256ths: 1, 2, 2.5 and -3 collide with integer / string keys; 1.125 vs 1.12890625,
        # 1 vs 1.00390625 vs 1.0078125 and 0.125 vs 0.1328125 differ only beyond the second decimal
        return "5,%d" % rng.choice([256, 512, 640, -768, 0, 288, 289, 257, 258, 2, 32, 34, 25728, -288, -289, 64, 192, 100 * 256 + 1])
    if r < 0.85:
        return "1"
    if r < 0.93:
        return "2"
    return "0"


def gen_group_case(rng, safe):
    """history: var1 = one record, moved or copied onto var0 (array); then GroupBy into var2, READ, render"""
    ops = []
    keyu = s_units(rng.choice(SAFE_KEYS)) if safe else rng.choice(WILD_KEYS + [s_units(k) for k in SAFE_KEYS])
    n = rng.randrange(0, 11) if rng.random() < 0.9 else 0
    others = [s_units(k) for k in SAFE_KEYS if s_units(k) != keyu] if safe else [k for k in WILD_KEYS + [s_units(x) for x in SAFE_KEYS] if k != keyu]
    broken = (not safe) and rng.random() < 0.15
    for e in range(n):
        t1 = (1, [])
        ops.append("10,%s" % enc_target(t1))
        nm = rng.randrange(0, 6)
        pos = rng.randrange(0, nm + 1)
        names = rng.sample(others, min(nm, len(others)))
        members = names[:pos] + [keyu] + names[pos:]
        removed = []
        for k in members:
            if k == keyu:
                if broken and rng.random() < 0.2:
                    continue
                if broken and rng.random() < 0.25:
                    # the key is there but has no text: Undefined (only touched), an array or an object -> GroupBy fails
                    r = rng.random()
                    if r < 0.4:
                        ops.append("2,%s,%s,7,%d" % (enc_target(t1), enc_str(k), rng.randrange(60)))
                    elif r < 0.7:
                        ops.append("2,%s,%s,0,0" % (enc_target(t1), enc_str(k)))
                        ops.append("4,%s,3,%d,0" % (enc_target((1, [("K", k)])), rng.randrange(9)))
                    else:
                        ops.append("2,%s,%s,0,0" % (enc_target(t1), enc_str(k)))
                        ops.append("2,%s,%s,3,1,0" % (enc_target((1, [("K", k)])), enc_str([110])))
                    continue
                ops.append("2,%s,%s,%s,%d" % (enc_target(t1), enc_str(k), key_value(rng, safe), rng.randrange(60)))
            else:
                r = rng.random()
                if safe or r < 0.7:
                    ops.append("2,%s,%s,%s,%d" % (enc_target(t1), enc_str(k), rnd_scalar(rng, allow_real=not safe, simple_str=safe), rng.randrange(60)))
                elif r < 0.8:
                    ops.append("2,%s,%s,7,%d" % (enc_target(t1), enc_str(k), rng.randrange(60)))       # undefined member
                elif r < 0.9:
                    ops.append("2,%s,%s,3,1,0" % (enc_target((1, [("K", k)])), enc_str([110])))            # nested object
                    ops.append("2,%s,%s,3,5,0" % (enc_target(t1), enc_str(k)) if False else "0")
                else:
                    ops.append("2,%s,%s,0,0" % (enc_target(t1), enc_str(k)))
                    ops.append("4,%s,3,%d,0" % (enc_target((1, [("K", k)])), rng.randrange(9)))           # nested array
                if rng.random() < 0.2:
                    removed.append(k)
        for k in removed:
            if rng.random() < 0.8:
                ops.append("8,%s,%s,%d" % (enc_target(t1), enc_str(k), rng.randrange(3)))                  # tombstone
        if rng.random() < 0.15 and members:
            k = rng.choice(members)
            if k != keyu:
                ops.append("2,%s,%s,%s,%d" % (enc_target(t1), enc_str(k), rnd_scalar(rng, allow_real=not safe, simple_str=safe), rng.randrange(60)))  # re-insert after removal
        if broken and rng.random() < 0.1:
            ops.append("1,%s,3,5,0" % enc_target(t1))                                                       # not an object
        mv = 1 if rng.random() < 0.75 else 0
        if e == 0:
            ops.append("10,0,0")
        ops.append("5,0,0,1,0,%d" % mv)
        if e == 0 and False:
            pass
    if n == 0:
        ops.append("3,0,0,0,7,0")
        ops.append("11,0,0")
    # the first append onto an Undefined value makes the array; an object appended to an object would merge
    ops = [o for o in ops if o != "0"]
    ops.append("18,2,0,0,0,%s" % enc_str(keyu))
    ops.append("17,2,0")
    if rng.random() < 0.3:
        ops.append("18,2,0,0,0,%s" % enc_str(keyu))          # again into a non-empty destination
    if safe:
        ops.append("19,0,0,%s" % enc_str(keyu))
    if rng.random() < 0.2:
        ops.append("14,1,0,3")
        ops.append("18,2,0,1,0,%s" % enc_str([97]))          # through a pointer: not an array
    return ops


def gen_cases(rng, tier, boost=1, wide=0, frac=1.0):
    global WILD_KEYS
    n = int((2500 if tier == "quick" else 60000) * boost * frac)
    c12._WIDE = wide
    base_wild = WILD_KEYS
    if wide:
        WILD_KEYS = WILD_KEYS + c12.WIDE_KEYS[wide]
    cases = []
    dist = {"render_safe": 0, "wild": 0}
    for i in range(n):
        safe = (i % 2 == 0)
        ops = gen_group_case(rng, safe)
        dist["render_safe" if safe else "wild"] += 1
        cases.append("18 " + ";".join(ops))
    c12._WIDE = 0
    WILD_KEYS = base_wild
    return cases, dist


def check(tier):
    return c12.run_check(
        PROP, PROP_V, tier, gen_cases,
        "Value::GroupBy / <loop group=> differs from partition_by_key (distinct textual key values in first-appearance order, stable groups, key erased, other members unchanged, source unchanged)",
        "seeded arrays of 0..10 records of 0..6 members built through the public API, grouping key at a random member position with values of every scalar kind (strings, unsigned, signed, reals that are exact dyadics with at most 8 fraction bits (k/4 ... k/256, e.g. 1.125 next to 1.12890625 and 1 next to 1.00390625, so that a group name printed with fewer digits merges groups), booleans, null; colliding texts across kinds), removed (tombstone) and undefined members, nested members, records moved or copied into the array; GroupBy result tree, ok flag, source array, typed reads and the rendered <loop value=g group=K> output are compared; half of the cases use arbitrary keys (empty, NUL, quote) and broken inputs (missing key, non-object element, empty array)",
        extra_assumptions=["rendered cases keep member values to integers, keywords and alphanumeric strings (real formatting inside {var:} and HTML escaping are C02/C03/C10's subject)"])


def replay(path):
    return c12.replay(path)
