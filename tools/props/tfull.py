"""tfull -- how many generated C02 ASTs lie in the fragment of the theorem c02_full_loops (coq/TfullMain.v).

The extracted boolean TfullModel.wf_template is evaluated on the ASTs tmplast generates; for every AST the extracted
pipeline is run as well: round trip  parse_model w (print_nodes ast) = Ok (tree_of_full ast)  and
render_all_jv auto w (print_nodes ast) root = ROk (expand auto w root ast).  For a well-formed AST both hold by the
theorem; a well-formed AST for which the extracted code disagrees would be an extraction / glue problem and is returned
in `bad`.

  count_wf(rng, n, project=False) -> dict(n, wf, roundtrip, render_eq, bad, classes)
  python3 tools/props/tfull.py [seed] [n]
"""
import collections
import os
import random
import sys

sys.path.insert(0, os.path.dirname(os.path.dirname(os.path.abspath(__file__))))
sys.path.insert(0, os.path.dirname(os.path.abspath(__file__)))
import vlib
import tmplast as ta


def project(ns):
    """the AST with every constructor outside the fragment replaced by a text"""
    out = []
    for n in ns:
        k = n[0]
        if k in ("t", "v", "r", "m"):
            out.append(n)
        elif k == "s":
            out.append(("s", n[1], project(n[2])))
        elif k == "f":
            out.append(("f", n[1], project(n[2]), [(e, project(b)) for (e, b) in n[3]]))
        elif k == "i":
            out.append(("i", n[1], project(n[2]), None if n[3] is None else project(n[3])))
        elif k == "l":
            out.append(("l", n[1], n[2], n[3], n[4], project(n[5])))
        else:
            out.append(("t", "#"))
    return ta.merge_text(out)


def count_wf(rng, n, projected=False):
    ok, log = vlib.coq_make(["Extract_tfull.vo"])
    if not ok:
        return {"n": 0, "broken": log[-2000:]}
    mexe, msg = vlib.build_ocaml("tfull")
    if mexe is None:
        return {"n": 0, "broken": msg}
    lines, asts = [], []
    for _ in range(n):
        ast, root = ta.gen_case(rng)
        if projected:
            ast = project(ast)
        w = rng.choice([0, 0, 1, 2, 3])
        lines.append("2 %d %s %s" % (w, "|".join(ta.ser_nodes(ast)), "|".join(ta.ser_value(root))))
        asts.append((w, ast, root))
    res, _ = vlib.run_sharded(mexe, [], lines, timeout=max(300, n // 10), case_timeout=20)
    cls = collections.Counter()
    bad = []
    for (w, ast, root), r in zip(asts, res):
        f = r.split(" ")[0]
        cls[f] += 1
        if f[:1] == "1" and f != "111":
            bad.append({"width": w, "ast": repr(ast)[:1500], "root": repr(root)[:500], "flags": f})
    return {"n": len(res), "wf": sum(v for k, v in cls.items() if k[:1] == "1"),
            "roundtrip": sum(v for k, v in cls.items() if len(k) == 3 and k[1] == "1"),
            "render_eq": sum(v for k, v in cls.items() if len(k) == 3 and k[2] == "1"),
            "bad": bad[:3], "n_bad": len(bad), "classes": dict(cls)}


if __name__ == "__main__":
    seed = int(sys.argv[1]) if len(sys.argv) > 1 else 1
    n = int(sys.argv[2]) if len(sys.argv) > 2 else 1500
    for proj in (False, True):
        r = count_wf(random.Random(seed), n, proj)
        print("projected" if proj else "generated", r)
    sys.exit(0)
