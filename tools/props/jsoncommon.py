"""Shared machinery of the four JSON checks (C05, C06, C07, C08): generators, the
python printer of concrete syntax trees (must agree with JsonModel.cprint -- the model
side re-prints every tree and reports SPEC-INCONSISTENT otherwise), mutators, the
decision protocol and the evidence.

case kinds (see cpp/drv_json.cpp, ocaml/json.ml):
  P any text            X damaged document (must be Undefined)      G generated document + tree
  S / R stringify of a tree built through the Value API (R: with reals)
"""
import json
import os
import random
import struct

import vlib
from vlib import fmt_list, parse_list

CU_MAX = [0xFF, 0xFFFF, 0xFFFFFFFF, 0xFFFFFFFF]
WS = [32, 9, 10, 13]
TABLES = (("Tables_json", "gentables_json.cpp"), ("Tables_digit", "gentables_digit.cpp"))
PATCHES = "D2 D11 D15 D16 D61 D62 D63 D81 D92 D93 (json) + D28 D43 D44 D45 D46 (digit)"


def to_utf(w, cp):
    if w == 0:
        if cp < 0x80:
            return [cp]
        if cp < 0x800:
            return [0xC0 | (cp >> 6), 0x80 | (cp & 0x3F)]
        if cp < 0x10000:
            return [0xE0 | (cp >> 12), 0x80 | ((cp >> 6) & 0x3F), 0x80 | (cp & 0x3F)]
        return [0xF0 | (cp >> 18), 0x80 | ((cp >> 12) & 0x3F), 0x80 | ((cp >> 6) & 0x3F), 0x80 | (cp & 0x3F)]
    if w == 1:
        if cp < 0x10000:
            return [cp]
        u = cp - 0x10000
        return [0xD800 | (u >> 10), 0xDC00 | (u & 0x3FF)]
    return [cp]


def asc(s):
    return [ord(c) for c in s]


# ---------------------------------------------------------------------------
# concrete syntax trees


def hex4(v, up):
    out = []
    for k in range(4):
        x = (v >> (4 * (3 - k))) & 15
        if x < 10:
            out.append(48 + x)
        elif (up >> k) & 1:
            out.append(65 + x - 10)
        else:
            out.append(97 + x - 10)
    return out


def cchar_print(w, c):
    if c[0] == "r":
        return to_utf(w, c[1])
    if c[0] == "s":
        return [92, c[1]]
    if c[0] == "h":
        return [92, 117] + hex4(c[1], c[2])
    u = c[1] - 0x10000
    return [92, 117] + hex4(0xD800 + (u >> 10), c[2]) + [92, 117] + hex4(0xDC00 + (u & 0x3FF), c[2] >> 4)


def cchar_tok(c):
    if c[0] in "rs":
        return "%s%d" % (c[0], c[1])
    return "%s%d:%d" % (c[0], c[1], c[2])


def wtok(ws):
    return "W" + fmt_list(ws)


class Printed:
    """units of a tree plus the positions of its structural characters"""

    def __init__(self):
        self.u = []
        self.closers = []   # indexes of structural ] and }
        self.seps = []      # indexes of structural , and :
        self.tok = []


def cstr_emit(w, s, out):
    out.u.append(34)
    for c in s:
        out.u += cchar_print(w, c)
    out.u.append(34)
    out.tok.append("S%d" % len(s))
    out.tok += [cchar_tok(c) for c in s]


def cprint(w, v, out):
    k = v[0]
    if k in ("null", "true", "false"):
        out.u += asc(k)
        out.tok.append(k[0])
    elif k == "nat":
        out.u += asc(v[1])
        out.tok.append("N" + fmt_list(asc(v[1])))
    elif k == "neg":
        out.u += [45] + asc(v[1])
        out.tok.append("M" + fmt_list(asc(v[1])))
    elif k == "real":
        out.u += asc(v[1])
        out.tok.append("R" + fmt_list(asc(v[1])))
    elif k == "str":
        cstr_emit(w, v[1], out)
    elif k == "arr":
        out.tok.append("A%d" % len(v[2]))
        out.tok.append(wtok(v[1]))
        out.u.append(91)
        out.u += v[1]
        for n, (wb, x, wa) in enumerate(v[2]):
            if n:
                out.seps.append(len(out.u))
                out.u.append(44)
            out.tok.append(wtok(wb))
            out.u += wb
            cprint(w, x, out)
            out.tok.append(wtok(wa))
            out.u += wa
        out.closers.append(len(out.u))
        out.u.append(93)
    elif k == "obj":
        out.tok.append("O%d" % len(v[2]))
        out.tok.append(wtok(v[1]))
        out.u.append(123)
        out.u += v[1]
        for n, (wb, key, w1, w2, x, wa) in enumerate(v[2]):
            if n:
                out.seps.append(len(out.u))
                out.u.append(44)
            out.tok.append(wtok(wb))
            out.u += wb
            cstr_emit(w, key, out)
            out.tok.append(wtok(w1))
            out.u += w1
            out.seps.append(len(out.u))
            out.u.append(58)
            out.tok.append(wtok(w2))
            out.u += w2
            cprint(w, x, out)
            out.tok.append(wtok(wa))
            out.u += wa
        out.closers.append(len(out.u))
        out.u.append(125)
    else:
        raise ValueError(k)


SHORT = [34, 92, 47, 98, 102, 110, 114, 116]
SHORT_VAL = {34: 34, 92: 92, 47: 47, 98: 8, 102: 12, 110: 10, 114: 13, 116: 9}
INTERESTING_CP = [0x20, 0x21, 0x41, 0x7E, 0x7F, 0x80, 0x7FF, 0x800, 0xFFF, 0x1000, 0xD7FF, 0xE000, 0xFFFD, 0xFFFF,
                  0x10000, 0x10FFFF, 0x1F600, 0x4FFFF, 0x50000, 0xFFFFF, 0x100000, 0x2F, 0x5B, 0x5D, 0x7B, 0x7D, 0x2C, 0x3A]


def gen_scalar_cp(rng):
    r = rng.random()
    if r < 0.35:
        return rng.randrange(0x20, 0x7F)
    if r < 0.6:
        return rng.choice(INTERESTING_CP)
    if r < 0.8:
        return rng.randrange(0x80, 0x3000)
    while True:
        cp = rng.randrange(0x20, 0x110000)
        if not (0xD800 <= cp <= 0xDFFF):
            return cp


def gen_cchar(rng):
    r = rng.random()
    if r < 0.12:
        return ("s", rng.choice(SHORT))
    if r < 0.2:   # control characters must be escaped
        cp = rng.randrange(0, 0x20)
        return ("h", cp, rng.randrange(16))
    cp = gen_scalar_cp(rng)
    r = rng.random()
    if r < 0.3:
        if cp < 0x10000:
            return ("h", cp, rng.randrange(16))
        return ("p", cp, rng.randrange(256))
    if cp in (34, 92):
        return ("s", cp)
    return ("r", cp)


def gen_ws(rng):
    return [rng.choice(WS) for _ in range(rng.choice([0, 0, 0, 0, 1, 1, 2, 3]))]


def gen_digits(rng, maxlen):
    n = rng.randrange(1, maxlen + 1)
    if n == 1:
        return str(rng.randrange(10))
    return str(rng.randrange(1, 10)) + "".join(str(rng.randrange(10)) for _ in range(n - 1))


BOUNDARY_NAT = [0, 1, 9, 10, 99, 2**31 - 1, 2**31, 2**32 - 1, 2**32, 2**53, 2**63 - 1, 2**63, 2**64 - 1,
                1844674407370955161, 18446744073709551609, 18446744073709551610, 9999999999999999999, 10**19, 10**18]


def gen_number(rng):
    r = rng.random()
    if r < 0.25:
        n = rng.choice(BOUNDARY_NAT)
        return ("nat", str(n))
    if r < 0.45:
        while True:
            d = gen_digits(rng, 20)
            if int(d) < 2**64:
                return ("nat", d)
    if r < 0.6:
        n = rng.choice([1, 9, 10, 2**31, 2**32, 2**53, 2**63 - 1, 2**63, 10**18])
        return ("neg", str(n))
    if r < 0.7:
        while True:
            d = gen_digits(rng, 19)
            if 0 < int(d) <= 2**63:
                return ("neg", d)
    # a real numeral (RFC grammar), magnitude well inside the double range
    sign = rng.choice(["", "", "-"])
    r = rng.random()
    if r < 0.1:
        return ("real", "-0")
    if r < 0.2:      # integer too large for 64 bits
        d = gen_digits(rng, 6)
        return ("real", sign + "18446744073709551616"[: rng.choice([20])] + d) if rng.random() < 0.5 else \
            ("real", sign + str(2**64 + rng.randrange(0, 1000)))
    ip = "0" if rng.random() < 0.3 else gen_digits(rng, rng.choice([1, 2, 5, 18, 19, 20, 22]))
    frac = ""
    if rng.random() < 0.7:
        frac = "." + "".join(str(rng.randrange(10)) for _ in range(rng.choice([1, 1, 2, 3, 8, 17, 19, 22])))
        if rng.random() < 0.2:
            frac = "." + "0" * rng.randrange(1, 6) + frac[1:]
    ex = ""
    if rng.random() < 0.5 or frac == "":
        ex = rng.choice("eE") + rng.choice(["", "+", "-"]) + str(rng.choice([0, 1, 2, 5, 10, 20, 100, 200, 250, rng.randrange(0, 250)]))
        if rng.random() < 0.1:
            ex = ex[0] + ex[1:].replace("+", "+0").replace("-", "-00")
    return ("real", sign + ip + frac + ex)


KEYPOOL = [[("r", 97)], [("r", 98)], [], [("r", 97), ("r", 98)], [("h", 97, 0)]]


def gen_key(rng):
    if rng.random() < 0.35:
        return list(rng.choice(KEYPOOL))
    return [gen_cchar(rng) for _ in range(rng.choice([0, 1, 1, 2, 3, 5]))]


def gen_cval(rng, depth, top=False):
    r = rng.random()
    if top or (depth > 0 and r < 0.55):
        sizes = [0, 1, 1, 2, 2, 3, 4] if not top else [0, 1, 2, 2, 3, 3, 4, 5]
        if rng.random() < 0.5:
            n = rng.choice(sizes)
            return ("arr", gen_ws(rng), [(gen_ws(rng), gen_cval(rng, depth - 1), gen_ws(rng)) for _ in range(n)])
        n = rng.choice(sizes)
        return ("obj", gen_ws(rng), [(gen_ws(rng), gen_key(rng), gen_ws(rng), gen_ws(rng), gen_cval(rng, depth - 1), gen_ws(rng)) for _ in range(n)])
    if r < 0.65:
        return ("str", [gen_cchar(rng) for _ in range(rng.choice([0, 1, 2, 3, 5, 8]))])
    if r < 0.88:
        return gen_number(rng)
    return (rng.choice(["null", "true", "false"]),)


def gen_doc(rng, w, maxlen=200, maxdepth=8, outer_ws=True):
    """a generated container document: (units, tree token, Printed)"""
    while True:
        v = gen_cval(rng, rng.choice([1, 2, 2, 3, 3, 4, 5, 6, 8]) if maxdepth else 0, top=True)
        out = Printed()
        cprint(w, v, out)
        if len(out.u) <= maxlen and all(x <= CU_MAX[w] for x in out.u):
            return v, out


def g_case(w, v, out, pre=(), post=()):
    units = list(pre) + out.u + list(post)
    return "G %d %s %s" % (w, fmt_list(units), ";".join(out.tok))


# ---------------------------------------------------------------------------
# damaged documents (C07)

SUFFIX_ALPHABET = asc("]}[{\",:0atfn\\-e./x") + [0, 0x80]
# every control unit that is NOT JSON whitespace (tab, LF, CR, space), DEL, and the Unicode spaces
# that a too-generous whitespace test could let through
CONTROL_SUFFIXES = [c for c in range(1, 32) if c not in (9, 10, 13)] + [0x7F, 0x85, 0xA0, 0x2028, 0x3000, 0xFEFF]


def damaged_cases(rng, w, out, full=True):
    """every proper prefix, one-unit suffixes, closing brackets swapped / removed,
    separators blanked: all must be rejected"""
    d = out.u
    res = []
    cuts = range(len(d)) if full else sorted(set(rng.randrange(len(d)) for _ in range(12)))
    for k in cuts:
        res.append(("prefix", d[:k]))
    for c in SUFFIX_ALPHABET + (CONTROL_SUFFIXES if full else rng.sample(CONTROL_SUFFIXES, 6)):
        if c <= CU_MAX[w]:
            res.append(("suffix", d + [c]))
            res.append(("suffix", d + [rng.choice(WS), c]))
    for pos in out.closers:
        other = 125 if d[pos] == 93 else 93
        res.append(("bracket", d[:pos] + [other] + d[pos + 1:]))
        res.append(("bracket", d[:pos] + d[pos + 1:]))
    for pos in out.seps:
        res.append(("separator", d[:pos] + [32] + d[pos + 1:]))
    return [("X %d %s" % (w, fmt_list(u)), tag) for tag, u in res]


# ---------------------------------------------------------------------------
# D92: a LONE high surrogate escape.  Before the repair UnEscape skipped the two units after it unread and took four
# more as the low half, so with ordinary text behind the escape the closing quote of the string was swallowed and a
# bracket inside a LATER string was taken as structure: a proper prefix of the text was accepted.  After the repair a
# high surrogate escape that is not followed by backslash-u is refused, so these texts are outside the accepted
# language: the text itself and every proper prefix must give Undefined.

LONE_TAILS = asc("abcdefgh")
LONE_STARTERS = [asc("]"), asc("}"), asc(","), asc(":"), asc("\\\""), asc("]}"), asc("}]"), asc("],"), asc("\\\"]"), asc("]\\\"")]


def lone_surrogate_docs(rng, full=True):
    """texts (ASCII, valid at every width) whose first string holds a lone high surrogate escape followed by 0..8
    ordinary units, and whose later strings begin with a closing bracket, a separator or an escaped quote"""
    docs = []
    for k in range(9):
        for st in LONE_STARTERS:
            hi = rng.choice([0xD800, 0xD83D, 0xDBFF, rng.randrange(0xD800, 0xDC00)])
            esc = [92, rng.choice([117, 85])] + hex4(hi, rng.randrange(16))
            tail = LONE_TAILS[:k]
            pre = asc(rng.choice(["", "x", "\\n"]))
            s1 = [34] + pre + esc + tail + [34]
            s2 = [34] + st + asc(rng.choice(["", "z", "12"])) + [34]
            s3 = [34] + asc(rng.choice(["]", "}", "q"])) + [34]
            shapes = [
                [91] + s1 + [44] + s2 + [93],                                   # ["..",".."]
                [91] + s1 + [44] + s2 + [44] + s3 + [93],                        # three strings
                [123] + s1 + [58] + s2 + [125],                                  # the key holds it
                [123] + asc("\"k\":") + s1 + [44] + s2 + [58] + s3 + [125],       # a member value holds it, the next key begins with the starter
                [91, 91] + s1 + [93, 44] + s2 + [93],                            # nested
                [91] + asc("1,") + s2 + [44] + s1 + [44] + s2 + [93],            # a harmless string first
            ]
            for d in (shapes if full else rng.sample(shapes, 2)):
                docs.append(d)
    return docs


def lone_surrogate_cases(rng, widths, kind="X", full=True):
    """the text and every proper prefix, at each of the given widths"""
    res = []
    for d in lone_surrogate_docs(rng, full):
        for w in widths(rng):
            for k in range(len(d) + 1):
                res.append("%s %d %s" % (kind, w, fmt_list(d[:k])))
    return res


# ---------------------------------------------------------------------------
# D93: a backslash-u escape with FEWER than four hexadecimal digits.  Before the repair HexStringToNumber stopped at the
# first unit that is not a digit while UnEscape advanced four units regardless, so the units behind a short group --
# the closing quote of the string among them -- were swallowed: ["\\u1","abcd"] was a one-element array and ["\\u00zz"]
# the string 00.  After the repair such a group is refused (in the first escape and in the second half of a pair), so
# these texts are outside the accepted language: the text itself and every proper prefix must give Undefined.

SHORT_HEX_TERMS = [asc("z"), asc("g"), asc("G"), asc(" "), asc("-"), asc("x1"), []]     # [] = the closing quote follows at once
SHORT_HEX_STARTERS = [asc("]"), asc("}"), asc(","), asc(":")]
HEXDIGS = asc("0123456789abcdefABCDEF")


def short_hex_docs(rng, full=True):
    """texts (ASCII) with an escape that has 0..3 hexadecimal digits followed by a unit that is not one, by the closing
    quote, or (through the prefixes) by the end of the text; in the first escape and in the second half of a pair;
    later strings begin with a closing bracket or a separator"""
    docs = []
    for half in (0, 1):
        for j in range(4):
            for term in SHORT_HEX_TERMS:
                for fill in (range(4) if full else [rng.randrange(4)]):
                    for st in (SHORT_HEX_STARTERS if full else [rng.choice(SHORT_HEX_STARTERS)]):
                        u = rng.choice([117, 85])
                        digs = [rng.choice(HEXDIGS) for _ in range(j)]
                        if half == 0:
                            esc = [92, u] + digs
                        else:
                            hi = rng.choice([0xD800, 0xD83D, 0xDBFF])
                            esc = [92, u] + hex4(hi, rng.randrange(16)) + [92, rng.choice([117, 85])] + digs
                        body = asc(rng.choice(["", "p"])) + esc + term + asc("wvut")[:fill]
                        s1 = [34] + body + [34]
                        s2 = [34] + st + asc(rng.choice(["", "abcd", "00"])) + [34]
                        shapes = [
                            [91] + s1 + [44] + s2 + [93],
                            [123] + s1 + [58] + s2 + [125],
                            [123] + asc("\"k\":") + s1 + [44] + s2 + [58] + asc("1") + [125],
                            [91] + s1 + [93],
                        ]
                        for d in (shapes if full else rng.sample(shapes, 2)):
                            docs.append(d)
    return docs


def short_hex_cases(rng, widths, kind="X", full=True):
    """the text and every proper prefix, at each of the given widths"""
    res = []
    for d in short_hex_docs(rng, full):
        for w in widths(rng):
            for k in range(len(d) + 1):
                res.append("%s %d %s" % (kind, w, fmt_list(d[:k])))
    return res


# ---------------------------------------------------------------------------
# histories: several texts through ONE caller-supplied scratch stream (D81)


def gen_escaped_doc(rng, w):
    """a valid document whose strings and keys contain escapes"""
    def estr():
        s = [gen_cchar(rng) for _ in range(rng.choice([1, 2, 3, 5]))]
        s.insert(rng.randrange(len(s) + 1), rng.choice([("s", rng.choice(SHORT)), ("h", rng.randrange(0x20, 0xD7FF), rng.randrange(16)),
                                                       ("p", rng.randrange(0x10000, 0x110000), rng.randrange(256))]))
        return s
    while True:
        items = []
        for _ in range(rng.choice([1, 2, 3])):
            r = rng.random()
            if r < 0.5:
                items.append((gen_ws(rng), ("str", estr()), gen_ws(rng)))
            elif r < 0.8:
                items.append((gen_ws(rng), ("obj", gen_ws(rng), [(gen_ws(rng), estr(), gen_ws(rng), gen_ws(rng),
                                                                 ("str", estr()) if rng.random() < 0.6 else gen_cval(rng, 1), gen_ws(rng))]), gen_ws(rng)))
            else:
                items.append((gen_ws(rng), gen_cval(rng, 1), gen_ws(rng)))
        v = ("arr", gen_ws(rng), items)
        out = Printed()
        cprint(w, v, out)
        if len(out.u) <= 200 and all(x <= CU_MAX[w] for x in out.u):
            return out.u


def gen_rejected(rng, w, doc):
    """a text that fails, preferably in the middle of an escaped string or key"""
    bs = [i for i, u in enumerate(doc) if u == 92]
    r = rng.random()
    if bs and r < 0.55:       # cut inside / right after an escape: \ | \u | \u12 | \uD83D | \uD83D\uDE
        p = rng.choice(bs)
        return doc[: min(len(doc) - 1, p + rng.choice([1, 2, 3, 4, 6, 7, 8, 10, 12]))]
    if bs and r < 0.75:       # an escape letter that does not exist, after some decoded units
        p = rng.choice(bs)
        return doc[: p + 1] + [113] + doc[p + 2:]
    if bs and r < 0.85:       # a raw line feed inside a string that already holds an escape
        p = rng.choice(bs)
        return doc[: p + 2] + [10] + doc[p + 2:]
    if r < 0.95:
        return doc[: rng.randrange(0, len(doc))]
    return doc + [rng.choice(SUFFIX_ALPHABET) & CU_MAX[w]]


def h_case(rng, w):
    n = rng.choice([2, 3, 3, 4])
    texts = []
    for k in range(n):
        d = gen_escaped_doc(rng, w)
        if (k % 2 == 1 and rng.random() < 0.85) or (k % 2 == 0 and rng.random() < 0.15):
            d = gen_rejected(rng, w, d)
        texts.append(d)
    return "H %d %s" % (w, "/".join(fmt_list(t) for t in texts))


# ---------------------------------------------------------------------------
# arbitrary texts (C05)

SOUP = ["{", "}", "[", "]", ",", ":", "\"", "\\", "\"a\"", "\"\"", "true", "false", "null", "tru", "nul", "0", "1", "-",
        "+", "1.5", "0.", ".5", "1e5", "1E+", "0x1f", "-0", "12345678901234567890", "18446744073709551616", "\\u", "\\u00",
        "\\u0041", "\\ud83d", "\\ud83d\\ude00", "\\udc00", "\\n", "\\\"", "\\x", " ", "\t", "\n", "\r", "e", "E", ".", "a", "t", "f", "n", "u", "U",
        # units >= 0x80 (negative as a signed char) in the positions where hex digits are expected
        "\\u00\u00e9\u00e9", "\\u\u0080\u00ff12", "\\ud83d\\ud\u00e9\u00e9\u00e9", "0x\u00e9", "0x1\u00ff", "\"\\u\u00c3\u00a9\u00c3\u00a9\""]


def gen_text(rng, w):
    r = rng.random()
    n = rng.choice([0, 1, 2, 3, 4, 5, 8, 13, 21, 40, 80, 150, 300])
    units = []
    if r < 0.45:
        while len(units) < n:
            units += asc(rng.choice(SOUP))
    elif r < 0.8:
        alpha = asc("{}[]\",:\\/bfnrtuU0123456789aAfFeE+-. \t\n\rxXlsz") + [0, 1, 0x1F, 0x7F, 0x80, 0xFF]
        units = [rng.choice(alpha) for _ in range(n)]
    else:
        units = [rng.randrange(0, min(CU_MAX[w], 0x2FF) + 1) for _ in range(n)]
        if CU_MAX[w] > 0xFF and units:
            for _ in range(3):
                units[rng.randrange(len(units))] = rng.choice([0xD800, 0xDC00, 0xFFFF, CU_MAX[w], 0x10000 & CU_MAX[w]])
    units = [u & CU_MAX[w] for u in units[: max(n, 0) if r >= 0.45 else 400]]
    # wrap or truncate sometimes
    if rng.random() < 0.3:
        units = asc(rng.choice(["[", "{\"a\":", "[\"", "{\""])) + units
    return units[:320]


# ---------------------------------------------------------------------------
# trees for Stringify (C08)

BOUNDARY_INT = [0, 1, -1, 9, -9, 10, -10, 2**31 - 1, -2**31, 2**63 - 1, -(2**63 - 1), -(2**63), -(2**62)]
BOUNDARY_DBL = [0.0, -0.0, 1.0, -1.0, 0.1, 0.5, 1.5, 1e22, 1e23, 2.0**53, 2.0**63, 2.0**64, 1.7976931348623157e308, 5e-324,
                2.2250738585072014e-308, 123456.789, 1e-7, 1e21, 3.141592653589793, -2.5e-5]


def gen_units_string(rng, w):
    n = rng.choice([0, 1, 2, 3, 5, 8, 20])
    res = []
    for _ in range(n):
        r = rng.random()
        if r < 0.3:
            res.append(rng.randrange(0x20, 0x7F))
        elif r < 0.5:
            res.append(rng.randrange(0, 0x20))
        elif r < 0.7:
            res.append(rng.choice([34, 92, 47, 0x7F, 0, 8, 9, 10, 12, 13, 0x1F, 0x20, 44, 93, 125]))
        elif r < 0.85:
            res.append(rng.choice([0x80, 0xFF, 0xD800 & CU_MAX[w], 0xDC00 & CU_MAX[w], 0xFFFF & CU_MAX[w], CU_MAX[w]]))
        else:
            res.append(rng.randrange(0, min(CU_MAX[w], 0x11FFFF) + 1))
    return res


def gen_tree(rng, w, depth, reals, top=False):
    r = rng.random()
    if top or (depth > 0 and r < 0.4):
        if rng.random() < 0.5:
            n = rng.choice([0, 0, 1, 2, 3, 5])
            items = []
            for _ in range(n):
                items.append("X" if rng.random() < 0.15 else gen_tree(rng, w, depth - 1, reals))
            t = "A%d" % n + "".join(";" + x for x in items)
        else:
            n = rng.choice([0, 0, 1, 2, 3, 5])
            keys = []
            while len(keys) < n:
                k = gen_units_string(rng, w) if rng.random() < 0.7 else rng.choice([[97], [98], [], [97, 98]])
                if k not in keys:
                    keys.append(k)
            ms = []
            for k in keys:
                r2 = rng.random()
                if r2 < 0.15:
                    ms.append("D" + fmt_list(k) + ";" + gen_tree(rng, w, depth - 1, reals))
                elif r2 < 0.22:
                    ms.append("K" + fmt_list(k) + ";X")
                else:
                    ms.append("K" + fmt_list(k) + ";" + gen_tree(rng, w, depth - 1, reals))
            t = "O%d" % n + "".join(";" + x for x in ms)
        if rng.random() < 0.12:
            return "P;" + t
        return t
    if rng.random() < 0.1:
        return "P;X" if rng.random() < 0.3 else "P;" + gen_tree(rng, w, 0, reals)
    if r < 0.6:
        return "S" + fmt_list(gen_units_string(rng, w))
    if r < 0.85:
        k = rng.random()
        if reals and k < 0.4:
            d = rng.choice(BOUNDARY_DBL) if rng.random() < 0.5 else rng.uniform(-1e6, 1e6) * 10 ** rng.randrange(-30, 30)
            return "r%016x" % struct.unpack("<Q", struct.pack("<d", d))[0]
        if k < 0.7:
            return "u%d" % (rng.choice(BOUNDARY_NAT) if rng.random() < 0.6 else rng.randrange(0, 2**64))
        return "i%d" % (rng.choice(BOUNDARY_INT) if rng.random() < 0.6 else rng.randrange(-(2**63), 2**63))
    return rng.choice(["T", "F", "N"])


def s_case(rng, w, reals):
    t = gen_tree(rng, w, rng.randrange(0, 5), reals, top=True)
    has_real = any(tok.startswith("r") for tok in t.split(";"))
    return "%s %d %s" % ("R" if has_real else "S", w, t)


# ---------------------------------------------------------------------------
# running


def corpus_cases(prop):
    res = []
    p = os.path.join(vlib.ROOT, "corpus", prop, "cases.txt")
    if os.path.exists(p):
        for line in open(p):
            line = line.strip()
            if line and not line.startswith("#"):
                res.append(line)
    return res


def build_driver():
    return vlib.build_cpp("drv_json", "drv_json.cpp")


def minimise(exe, case):
    """shrink the units of a P / X case while the oracle still fails"""
    tk = case.split(" ")
    if tk[0] not in ("P", "X"):
        return case
    units = parse_list(tk[2])

    def fails(u):
        r = vlib.differential("json", exe, [" ".join(tk[:2] + [fmt_list(u)])])
        if not r.oracle_fail:
            return False
        # a shrunk X case must still be a text that is NOT a document: the model (proved equal to
        # the grammar, c07_all_or_nothing + parse_complete) has to say Undefined for it
        return tk[0] != "X" or r.oracle_fail[0][2] == "U"

    if not fails(units):
        return case
    small = vlib.shrink_list(units, fails, max_steps=250)
    return " ".join(tk[:2] + [fmt_list(small)])


def text_of(units):
    return "".join(chr(u) if 32 <= u < 127 else "\\x%02x" % u if u < 256 else "\\u{%x}" % u for u in units)


def run_check(prop, tier, gen, theorems_file, what, level_rule, extra=None):
    """gen(rng, tier, boost) -> (cases, dist).  Applies the decision protocol."""
    rep = vlib.Report(prop, tier, "proof")
    rng = random.Random(rep.seed * 7919 + int(prop[1:]))
    st = vlib.proof_stage(rep, theorems_file, ["json"], tables=TABLES)
    theorems = st["theorems"]
    proof_ok = st["ok"]
    base_cov = {"obligations": max(1, len(theorems)), "discharged": len(theorems) if proof_ok else 0,
                "checker_cmd": "cd coq && make %s Extract_json.vo (coqc 8.16.1) ; coqc -Q . Qv %s for Print Assumptions" % (theorems_file.replace(".v", ".vo"), theorems_file),
                "trusted_base": vlib.TRUSTED_BASE_COMMON + [
                    "tools/gentables_json.cpp (JSON notation constants)",
                    "modelled (coq/JsonModel.v): JSON.hpp Parse/parseObject/parseArray/parseValue, JSONUtils.hpp UnEscape/Escape, StringUtils TrimLeft, Unicode ToUTF, the scanner part of Digit::stringToNumber + parseExponent + HexStringToNumber, Value::Stringify and its writers; the text of a double leaf is DigitModel.real_to_string (the digit component's model of Digit::RealToString, 17 digits, Default format) and the C08 run compares the whole document text including it; NOT modelled: the value of real numbers in the dump (both sides print R), HArray internals (insert-or-replace as an association list), memory management",
                    "the tree to be described by the model is /repo with the repairs %s applied" % PATCHES]}
    exe, msg = build_driver()
    if exe is None:
        rep.violation({"broken": "cpp/drv_json.cpp does not build against the current tree", "log": msg}, no_input=True)
        rep.cov = base_cov
        return rep.finish()
    boost = 1 if proof_ok else 4
    cases, dist = gen(rng, tier, boost)
    cases = corpus_cases(prop) + cases
    # pre-screen: a tree that already fails on the corpus and the first few hundred generated cases
    # is reported from those (a crashing build would otherwise be re-run case by case for minutes)
    head = cases[: len(corpus_cases(prop)) + 600]
    res = vlib.differential("json", exe, head)
    if not (res.oracle_fail or res.crashes):
        rest = vlib.differential("json", exe, cases[len(head):])
        res.oracle_fail += rest.oracle_fail
        res.mismatch += rest.mismatch
        res.bad += rest.bad
        res.crashes += rest.crashes
        res.n += rest.n
    else:
        cases = head
    if not res.oracle_fail and (res.mismatch or res.bad) and boost == 1:
        more, dist2 = gen(random.Random(rep.seed + 104729), tier, 4)
        r2 = vlib.differential("json", exe, more)
        cases += more
        for k, v in dist2.items():
            dist[k] = dist.get(k, 0) + v
        res.oracle_fail += r2.oracle_fail
        res.mismatch += r2.mismatch
        res.bad += r2.bad
        res.crashes += r2.crashes
        res.n += r2.n
    found_input = False
    seen = set()
    kf = vlib.known_findings(prop)
    for (c, i, m, tag) in res.oracle_fail:
        if len(seen) >= 4:
            break
        small = minimise(exe, c)
        key = small if small != c else (c.split(" ")[0], i[:30])
        if key in seen:
            continue
        seen.add(key)
        found_input = True
        rr = vlib.differential("json", exe, [small])
        ii, mm = (rr.oracle_fail[0][1], rr.oracle_fail[0][2]) if rr.oracle_fail else (i, m)
        tk = small.split(" ")
        rep.violation({"component": "json", "case": small, "format": "<kind> <width> <units | tree> [<tree>]",
                       "text": text_of(parse_list(tk[2])) if tk[0] in "PXG" else tk[2],
                       "observed_impl": ii, "model": mm, "oracle": what, "original_case": c if c != small else None,
                       "model_agrees_with_impl": ii == mm, "broken": None if proof_ok else theorems_file})
    if not found_input and (res.mismatch or res.bad or not proof_ok):
        whatb = []
        if not proof_ok:
            whatb.append("coq/%s no longer builds (theorems not re-established)" % theorems_file.replace(".v", ".vo"))
        if res.mismatch:
            whatb.append("correspondence JsonModel vs JSON.hpp / JSONUtils.hpp / Value::Stringify differs")
        if res.bad:
            whatb.append("driver output malformed: %r" % (res.bad[0],))
        ex = None
        if res.mismatch:
            c0 = res.mismatch[0]
            ex = {"case": c0[0], "impl": c0[1], "model": c0[2]}
        rep.violation({"broken": whatb, "first_mismatch": ex, "coq_log": st["log"][-3000:] if not proof_ok else "",
                       "searched_cases": res.n}, no_input=True)
    nt = len(set(cases))
    cov = dict(base_cov)
    cov.update({
        "theorems": [{"name": n, "assumptions": a} for n, a in theorems],
        "evaluations": res.n,
        "distinct_nontrivial": nt,
        "rule": level_rule,
        "samples": [cases[0], cases[len(cases) // 2], cases[-1]] if cases else [],
        "input_distribution": dist,
        "traces_validated_against_impl": res.n,
        "oracle_failures": len(res.oracle_fail),
        "model_impl_mismatches": len(res.mismatch),
        "crashes": len(res.crashes),
    })
    if extra:
        cov.update(extra(rep, exe) or {})
    rep.cov = cov
    rep.assumptions = [
        "the theorems are about coq/JsonModel.v; the C++ is tied by gen/Tables_json.v and by the differential run reported here (finite)",
        "the model describes /repo with the repairs %s applied (findings/*.patch)" % PATCHES,
        "character widths char, char16_t, char32_t, wchar_t on LP64 little-endian; lengths below 2^32",
        "after D92 a high surrogate escape (\\uD800..\\uDBFF) must be followed by another \\u escape (whose value stays unchecked, as the repository's own suite pins): texts with an UNPAIRED high surrogate escape are outside the accepted language -- they and all their proper prefixes give Undefined (C07 run, kind lone_surrogate); RFC 8259 does not require a reader to accept them",
        "after D93 a backslash-u escape must have exactly four hexadecimal digits (either case), in the first escape and in the second half of a pair: texts with a shorter group (accepted before: [\"\\u1\",\"abcd\"], [\"\\u00zz\"]) are outside the accepted language -- they and all their proper prefixes give Undefined (C07 run, kind short_hex); they are not JSON",
        "real numbers: kind and consumed text are proved (every RFC numeral, JsonDigitRfc/Big/Forms.v); the value of a real leaf is DEFINED as the bits DigitModel.string_to_number gives its text (accuracy is C09/C10/C11); that JsonModel.scan_number and DigitModel.string_to_number agree is compared on every numeral of the generated documents (C06 run), not proved; of the text RealToString emits only the alphabet is proved (JsonDigitAlpha.v), its order is a per-leaf boolean",
    ]
    return rep.finish()


def replay(path):
    d = json.load(open(path))
    case = d.get("case")
    if not case:
        print("replay names a broken obligation, not an input:", d.get("broken"))
        return 1
    exe, msg = build_driver()
    r = vlib.differential("json", exe, [case])
    print("case:", case)
    for (c, i, m, tag) in r.oracle_fail:
        print("impl:", i, "\nmodel:", m, "\noracle: FAIL")
        return 1
    for (c, i, m) in r.mismatch:
        print("impl:", i, "\nmodel:", m, "\noracle: ok, model differs")
        return 1
    print("oracle ok, model agrees")
    return 0
