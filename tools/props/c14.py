"""C14 -- Array, String, StringStream and StringView behave as plain sequences;
Memory::Copy / SetToZero equal memcpy / memset for every length and alignment.

Proof: coq/Properties_C14.v (unbounded: induction over operation histories on a pool of
       objects over a block heap; copy_blocks / zero_blocks for every shift and length).
Tie:   cpp/drv_seq.cpp runs the same histories on the real containers (pool of 3, ASan+UBSan,
       exact-fit growth hook) and prints contents after every step; compared with the
       extracted heap model (M) and the extracted list specification (S).
       cpp/drv_memcopy.cpp: exhaustive length x misalignment grid in the scalar, SSE2 and
       AVX2 builds (a test: alignment / SIMD load-store behaviour is runtime only)."""
import json
import os
import random

import vlib
from vlib import fmt_list

PROP = "C14"
KINDS = ["ai", "as", "s", "t", "v"]
WMAX = [255, 65535, 0x10FFFF]
BUILDS = [
    ("scalar", [], [], "0:0"),
    ("sse2", ["QENTEM_SSE2=1"], ["-msse2"], "1:4"),
    ("avx2", ["QENTEM_AVX2=1"], ["-mavx2"], "1:5"),
]


# ---------------------------------------------------------------- generators
def units(rng, w, maxlen=6, nul=0.05):
    n = rng.choice([0, 0, 1, 1, 2, 3, 3, 4, 5, maxlen])
    r = []
    for _ in range(n):
        x = rng.random()
        if x < nul:
            r.append(0)
        elif x < 0.35:
            r.append(rng.choice([32, 9, 10, 13]))
        elif x < 0.9:
            r.append(rng.choice([97, 98, 120, 121, 122, 81]))
        else:
            r.append(rng.choice([1, 127, 128, 255, WMAX[w]]) if w else rng.choice([1, 127, 128, 255]))
    return r


def idx3(rng):
    return rng.randrange(3)


def two_distinct(rng):
    i = rng.randrange(3)
    j = (i + 1 + rng.randrange(2)) % 3
    return i, j


def elem_s(rng):
    u = [rng.choice([97, 98, 99, 32, 122]) for _ in range(rng.choice([0, 1, 1, 2, 3, 5]))]
    return ".".join(str(x) for x in u) if u else "e"


def gen_array(rng, kind, nops):
    ops = []
    grow = 0
    el = (lambda: str(rng.randrange(1, 1000))) if kind == "ai" else (lambda: elem_s(rng))
    for _ in range(nops):
        r = rng.random()
        i = idx3(rng)
        # observers / Swap (members that only show up when used: range-for, Swap)
        if r < 0.06:
            ops.append("ASwap:%d:%d:%d" % (i, rng.randrange(6), rng.randrange(6)))
            continue
        if r < 0.11:
            ops.append("AIter:%d" % i)
            continue
        r = (r - 0.11) / 0.89
        if r < 0.30:
            ops.append("AAppendItem:%d:%s" % (i, el()))
        elif r < 0.40 and grow < 7:
            grow += 1
            j = i if rng.random() < 0.4 else idx3(rng)
            ops.append("AAppendCopy:%d:%d" % (i, j))
        elif r < 0.46 and grow < 7:
            grow += 1
            ops.append("AAppendMove:%d:%d" % two_distinct(rng))
        elif r < 0.52:
            ops.append("AAppendOwn:%d:%d" % (i, rng.randrange(5)))
        elif r < 0.56:
            ops.append("ACopyAssign:%d:%d" % (i, idx3(rng)))
        elif r < 0.60:
            ops.append("AMoveAssign:%d:%d" % (i, idx3(rng)))
        elif r < 0.63:
            ops.append("ACopyCtor:%d:%d" % two_distinct(rng))
        elif r < 0.66:
            ops.append("AMoveCtor:%d:%d" % two_distinct(rng))
        elif r < 0.69:
            ops.append("ANewSized:%d:%d:%d" % (i, rng.randrange(5), rng.randrange(2)))
        elif r < 0.72:
            ops.append("AReserve:%d:%d:%d" % (i, rng.randrange(5), rng.randrange(2)))
        elif r < 0.77:
            ops.append("AResize:%d:%d" % (i, rng.randrange(8)))
        elif r < 0.82:
            ops.append("AResizeInit:%d:%d" % (i, rng.randrange(8)))
        elif r < 0.86:
            ops.append("AExpect:%d:%d" % (i, rng.randrange(5)))
        elif r < 0.89:
            ops.append("ACompress:%d" % i)
        elif r < 0.94:
            ops.append("ADrop:%d:%d" % (i, rng.randrange(5)))
        elif r < 0.96:
            ops.append("AClear:%d" % i)
        elif r < 0.98:
            ops.append("AReset:%d" % i)
        else:
            ops.append("ADetach:%d" % i)
    return ops


def gen_string(rng, w, nops):
    ops = []
    grow = 0
    U = lambda **k: fmt_list(units(rng, w, **k))
    for _ in range(nops):
        r = rng.random()
        i = idx3(rng)
        if r < 0.12:
            ops.append(rng.choice(["SIter:%d", "SLast:%d", "SIsEmpty:%d", "SStreamOut:%d", "SStreamOut:%d"]) % i)
            continue
        r = (r - 0.12) / 0.88
        if r < 0.10:
            ops.append("SAppendCstr:%d:%s" % (i, U()))
        elif r < 0.16:
            ops.append("SAppendChar:%d:%d" % (i, rng.choice([97, 32, 0, 122, WMAX[w]])))
        elif r < 0.22:
            ops.append("SWrite:%d:%s" % (i, U()))
        elif r < 0.30 and grow < 7:
            grow += 1
            j = i if rng.random() < 0.4 else idx3(rng)
            ops.append("SAppendObj:%d:%d" % (i, j))
        elif r < 0.34 and grow < 7:
            grow += 1
            ops.append("SAppendMove:%d:%d" % two_distinct(rng))
        elif r < 0.40 and grow < 7:
            grow += 1
            ops.append("SPlus:%d:%d:%d:%d" % (i, idx3(rng), idx3(rng), rng.randrange(2)))
        elif r < 0.43:
            ops.append("SPlusCstr:%d:%d:%s" % (i, idx3(rng), U()))
        elif r < 0.47:
            ops.append("STrim:%d:%d" % (i, idx3(rng)))
        elif r < 0.50:
            ops.append("SNewCopy:%d:%s" % (i, U()))
        elif r < 0.53:
            ops.append("SNewCstr:%d:%s" % (i, U()))
        elif r < 0.55:
            ops.append("SNewLen:%d:%s" % (i, U()))
        elif r < 0.57:
            ops.append("SNewAdopt:%d:%s" % (i, U()))
        elif r < 0.59:
            ops.append("SDefault:%d" % i)
        elif r < 0.62:
            ops.append("SCopyCtor:%d:%d" % two_distinct(rng))
        elif r < 0.64:
            ops.append("SMoveCtor:%d:%d" % two_distinct(rng))
        elif r < 0.67:
            ops.append("SCopyAssign:%d:%d" % (i, idx3(rng)))
        elif r < 0.70:
            ops.append("SMoveAssign:%d:%d" % (i, idx3(rng)))
        elif r < 0.73:
            ops.append("SAssignCstr:%d:%s" % (i, U()))
        elif r < 0.76:
            ops.append("SAssignOwn:%d:%d" % (i, rng.randrange(5)))
        elif r < 0.79:
            ops.append("SEqObj:%d:%d" % (i, idx3(rng)))
        elif r < 0.83:
            ops.append("SEqCstr:%d:%s" % (i, U(maxlen=2)))
        elif r < 0.84:
            ops.append("SEqNull:%d" % i)
        elif r < 0.86:
            ops.append("SIsEqual:%d:%s" % (i, U(maxlen=2)))
        elif r < 0.91:
            ops.append("SStepBack:%d:%d" % (i, rng.randrange(5)))
        elif r < 0.94:
            ops.append("SReverse:%d:%d" % (i, rng.choice([0, 0, 0, 1, 2, 3, 7])))
        elif r < 0.98:
            ops.append("SInsertAt:%d:%d:%d" % (i, rng.choice([81, 32, 0]), rng.randrange(8)))
        elif r < 0.99:
            ops.append("SReset:%d" % i)
        else:
            ops.append("SDetach:%d" % i)
    return ops


def gen_stream(rng, w, nops):
    ops = []
    grow = 0
    U = lambda **k: fmt_list(units(rng, w, **k))
    for _ in range(nops):
        r = rng.random()
        i = idx3(rng)
        if r < 0.09:
            ops.append(rng.choice(["TIter:%d", "TStreamOut:%d"]) % i)
            continue
        r = (r - 0.09) / 0.91
        if r < 0.10:
            ops.append("TAppendCstr:%d:%s" % (i, U()))
        elif r < 0.18:
            ops.append("TAppendChar:%d:%d" % (i, rng.choice([97, 32, 0, 122, WMAX[w]])))
        elif r < 0.28:
            ops.append("TAppendExt:%d:%s" % (i, U()))
        elif r < 0.38 and grow < 7:
            grow += 1
            j = i if rng.random() < 0.5 else idx3(rng)
            ops.append("TAppendObj:%d:%d" % (i, j))
        elif r < 0.42:
            ops.append("TBuffer:%d:%s" % (i, U()))
        elif r < 0.46:
            ops.append("TSetLength:%d:%d:%d" % (i, rng.randrange(9), rng.choice([66, 0, 32])))
        elif r < 0.49:
            ops.append("TExpect:%d:%d" % (i, rng.randrange(6)))
        elif r < 0.51:
            ops.append("TReserve:%d:%d" % (i, rng.randrange(6)))
        elif r < 0.53:
            ops.append("TNew:%d:%d" % (i, rng.randrange(6)))
        elif r < 0.56:
            ops.append("TCopyCtor:%d:%d" % two_distinct(rng))
        elif r < 0.58:
            ops.append("TMoveCtor:%d:%d" % two_distinct(rng))
        elif r < 0.62:
            ops.append("TCopyAssign:%d:%d" % (i, idx3(rng)))
        elif r < 0.65:
            ops.append("TMoveAssign:%d:%d" % (i, idx3(rng)))
        elif r < 0.68:
            ops.append("TAssignExt:%d:%s" % (i, U()))
        elif r < 0.70:
            ops.append("TAssignCstr:%d:%s" % (i, U()))
        elif r < 0.73:
            ops.append("TEqObj:%d:%d" % (i, idx3(rng)))
        elif r < 0.76:
            ops.append("TEqExt:%d:%s" % (i, U(maxlen=2)))
        elif r < 0.78:
            ops.append("TEqCstr:%d:%s" % (i, U(maxlen=2)))
        elif r < 0.83:
            ops.append("TStepBack:%d:%d" % (i, rng.randrange(5)))
        elif r < 0.86:
            ops.append("TReverse:%d:%d" % (i, rng.choice([0, 0, 0, 1, 2, 3, 7])))
        elif r < 0.91:
            ops.append("TInsertAt:%d:%d:%d" % (i, rng.choice([81, 32, 0]), rng.randrange(8)))
        elif r < 0.93:
            ops.append("TGetString:%d" % i)
        elif r < 0.95:
            ops.append("TGetStringView:%d" % i)
        elif r < 0.97:
            ops.append("TInsertNull:%d" % i)
        elif r < 0.98:
            ops.append("TClear:%d" % i)
        elif r < 0.99:
            ops.append("TReset:%d" % i)
        else:
            ops.append("TDetach:%d" % i)
    return ops


def gen_view(rng, w, nops):
    ops = []
    U = lambda **k: fmt_list(units(rng, w, **k))
    for _ in range(nops):
        r = rng.random()
        i = idx3(rng)
        if r < 0.18:
            ops.append(rng.choice(["VIter:%d", "VStreamOut:%d", "VIsEmpty:%d"]) % i)
            continue
        r = (r - 0.18) / 0.82
        if r < 0.25:
            ops.append("VNew:%d:%s" % (i, U(maxlen=3)))
        elif r < 0.40:
            ops.append("VNewCstr:%d:%s" % (i, U(maxlen=3)))
        elif r < 0.55:
            ops.append("VCopy:%d:%d" % (i, idx3(rng)))
        elif r < 0.68:
            ops.append("VMove:%d:%d" % (i, idx3(rng)))
        elif r < 0.73:
            ops.append("VReset:%d" % i)
        elif r < 0.85:
            ops.append("VEqObj:%d:%d" % (i, idx3(rng)))
        elif r < 0.93:
            ops.append("VEqCstr:%d:%s" % (i, U(maxlen=2)))
        else:
            ops.append("VIsEqual:%d:%s" % (i, U(maxlen=2)))
    return ops


def gen_cases(rng, tier, boost=1):
    cases = []
    dist = {}
    scale = (2 if tier == "quick" else 12) * boost
    plan = [("ai", 0, 900), ("as", 0, 900)]
    for w in range(3):
        plan += [("s", w, 700), ("t", w, 700), ("v", w, 120)]
    for kind, w, n in plan:
        for _ in range(n * scale):
            nops = rng.choice([3, 6, 10, 20, 30, 45, 60])
            if kind in ("ai", "as"):
                ops = gen_array(rng, kind, nops)
            elif kind == "s":
                ops = gen_string(rng, w, nops)
            elif kind == "t":
                ops = gen_stream(rng, w, nops)
            else:
                ops = gen_view(rng, w, nops)
            cases.append("%s %d %s" % (kind, w, ";".join(ops)))
            dist[kind] = dist.get(kind, 0) + 1
    return cases, dist


def mem_samples(rng, simd, shift, count):
    res = []
    for _ in range(count):
        n = rng.choice([0, 1, 2, 3, 15, 16, 17, 31, 32, 33, 47, 63, 64, 65, 100]) if rng.random() < 0.7 else rng.randrange(0, 130)
        extra = rng.randrange(0, 5)
        src = [rng.randrange(1, 256) for _ in range(n + rng.randrange(0, 3))]
        dst = [rng.randrange(1, 256) for _ in range(n + extra)]
        res.append("m %d %d %d %s %s" % (simd, shift, n, fmt_list(src), fmt_list(dst)))
        res.append("z %d %d %d %s" % (simd, shift, n, fmt_list(dst)))
    return res


def grid_lines(tier, rng):
    if tier == "quick":
        lens = list(range(0, 301)) + sorted(rng.sample(range(301, 4097), 12)) + [4095, 4096]
    else:
        lens = list(range(0, 4097))
    lines = []
    for n in lens:
        lines.append("G c %d %d" % (n, n))
    # SetToZero has no source: cheap, chunked
    step = 16
    zl = lens if tier != "quick" else lens
    k = 0
    while k < len(zl):
        chunk = zl[k:k + step]
        if chunk[-1] - chunk[0] == len(chunk) - 1:
            lines.append("G z %d %d" % (chunk[0], chunk[-1]))
        else:
            lines += ["G z %d %d" % (x, x) for x in chunk]
        k += step
    return lines, len(lens)


def corpus_cases():
    res = []
    p = os.path.join(vlib.ROOT, "corpus", PROP, "cases.txt")
    if os.path.exists(p):
        for line in open(p):
            line = line.strip()
            if line and not line.startswith("#"):
                res.append(line)
    return res


def nontrivial(case):
    """non-trivial: the history has an operation with two objects (copy / move / append of a container,
    incl. the container itself) after some object became non-empty"""
    ops = case.split(" ")[2]
    return any(t in ops for t in ("AppendCopy", "AppendMove", "AppendObj", "Assign", "Ctor", "SPlus", "VCopy", "VMove", "AppendOwn"))


def minimise(exe, case, pred):
    kind, w, ops = case.split(" ")
    toks = ops.split(";")

    def fails(ts):
        if not ts:
            return False
        r = vlib.differential("seq", exe, ["%s %s %s" % (kind, w, ";".join(ts))])
        return pred(r)

    small = vlib.shrink_list(toks, fails, max_steps=250)
    return "%s %s %s" % (kind, w, ";".join(small))


def check(tier):
    rep = vlib.Report(PROP, tier, "proof")
    rng = random.Random(rep.seed)
    st = vlib.proof_stage(rep, "Properties_C14.v", ["seq"], tables=(), clean=False)
    theorems = st["theorems"]
    proof_ok = st["ok"]
    base_cov = {"obligations": max(1, len(theorems)), "discharged": len(theorems) if proof_ok else 0,
                "checker_cmd": "cd coq && make Properties_C14.vo (coqc 8.16.1, full .vo build); coqc -Q . Qv Properties_C14.v for Print Assumptions",
                "trusted_base": vlib.TRUSTED_BASE_COMMON}

    exe, msg = vlib.build_cpp("drv_seq", "drv_seq.cpp")
    if exe is None:
        rep.violation({"broken": "cpp/drv_seq.cpp does not build against the current tree", "log": msg}, no_input=True)
        rep.cov = base_cov
        return rep.finish()
    mexes = []
    for (name, defs, extra, cfg) in BUILDS:
        e, m = vlib.build_cpp("drv_memcopy_" + name, "drv_memcopy.cpp", defines=defs, extra=extra)
        if e is None:
            rep.violation({"broken": "cpp/drv_memcopy.cpp (%s) does not build against the current tree" % name, "log": m}, no_input=True)
            rep.cov = base_cov
            return rep.finish()
        mexes.append((name, e, cfg))

    boost = 1 if proof_ok else 4
    cases, dist = gen_cases(rng, tier, boost)
    cases = corpus_cases() + cases
    r = vlib.differential("seq", exe, cases)
    # second pass with the library's own growth policy (hook off): paths that need spare capacity
    # (GetString adopting the buffer, InsertNull without growth, appends into slack) do not exist
    # under exact-fit growth
    exe_nh, msg_nh = vlib.build_cpp("drv_seq_nohook", "drv_seq.cpp", hook=False)
    if exe_nh is not None:
        r_nh = vlib.differential("seq", exe_nh, cases[: max(2000, len(cases) // 2)])
        have = set(x[0] for x in r.oracle_fail)
        r.oracle_fail += [x for x in r_nh.oracle_fail if x[0] not in have]
        have = set(x[0] for x in r.mismatch)
        r.mismatch += [x for x in r_nh.mismatch if x[0] not in have]
        r.crashes += r_nh.crashes
        r.n += r_nh.n

    found_input = False
    seen = set()
    for (c, i, m, tag) in r.oracle_fail[:50]:
        if len(seen) >= 4:
            break
        small = minimise(exe, c, lambda rr: bool(rr.oracle_fail))
        if small in seen:
            continue
        seen.add(small)
        found_input = True
        rr = vlib.differential("seq", exe, [small])
        ii, mm = (rr.oracle_fail[0][1], rr.oracle_fail[0][2]) if rr.oracle_fail else (i, m)
        rep.violation({"component": "seq", "case": small, "format": "<kind ai|as|s|t|v> <width> <op;op;...>",
                       "observed_impl": ii[:2000], "model": mm[:2000],
                       "oracle": "fails: trace differs from the plain list specification (or the run crashed under ASan/UBSan)",
                       "original_case": c[:3000], "model_agrees_with_impl": tag == "same",
                       "broken": None if proof_ok else "Properties_C14.vo"})

    # nested ownership (no Coq model: std::vector mirror as oracle, ASan/LSan on lifetimes): assignment /
    # append whose right-hand side is an array held by an element of the destination itself
    nexe, nmsg = vlib.build_cpp("drv_nested", "drv_nested.cpp")
    n_nested = 0
    if nexe is not None:
        scripts = [",".join(str(rng.randrange(0, 50)) for _ in range(40)) for _ in range((1500 if tier == "quick" else 40000) * boost)]
        nres, ncr = vlib.run_sharded(nexe, [], scripts, case_timeout=10)
        n_nested = len(scripts)
        nbad = [(sc, r) for sc, r in zip(scripts, nres) if not r.startswith("ok")]
        for (sc, r) in nbad[:2]:
            def still(u, r=r):
                o, _ = vlib.run_sharded(nexe, [], [",".join(str(x) for x in u)], shards=1, case_timeout=10)
                return bool(o) and not o[0].startswith("ok")
            small = vlib.shrink_list([int(x) for x in sc.split(",")], still, max_steps=150)
            o, cr = vlib.run_sharded(nexe, [], [",".join(str(x) for x in small)], shards=1, case_timeout=10)
            rep.violation({"component": "Array<Node> with nested Array<Node> (cpp/drv_nested.cpp)", "case": ",".join(str(x) for x in small),
                           "format": "script of choices: tree shape, then (op, index) pairs; ops: 0 root=Move(root[i].kids) 1 root=root[i].kids 2 root+=root[i].kids 4 root+=Move(root[i].kids) 5 root=Move(root[i].kids[j].kids)",
                           "observed_impl": (o[0] if o else "")[:300], "oracle": "contents equal the std::vector mirror after every step and no sanitizer report",
                           "sanitizer": (cr[0][1][-1500:] if cr else "")})

    # Memory::Copy / SetToZero: grid (self-judging against memcpy / memset semantics) + model samples
    glines, nlens = grid_lines(tier, rng)
    grid_bad = []
    grid_combos = 0
    mem_diff = []
    cfg_bad = []
    n_mem_samples = 0
    for (name, e, cfg) in mexes:
        out, crashes = vlib.run_sharded(e, [], ["cfg"] + glines, shards=min(8, vlib.NPROC))
        if not out or out[0] != cfg:
            cfg_bad.append((name, out[0] if out else "?", cfg))
        for ln, o in zip(glines, out[1:]):
            if o.startswith("ok:"):
                grid_combos += int(o[3:])
            else:
                grid_bad.append((name, ln, o))
        simd, shift = cfg.split(":")
        ms = mem_samples(rng, int(simd), int(shift), 150 if tier == "quick" else 2000)
        n_mem_samples += len(ms)
        rm = vlib.differential("seq", e, ms)
        for (c, i, m, tag) in rm.oracle_fail:
            mem_diff.append((name, c, i, m, "oracle"))
        for (c, i, m) in rm.mismatch:
            mem_diff.append((name, c, i, m, "model"))
    for (name, ln, o) in grid_bad[:3]:
        found_input = True
        rep.violation({"component": "memcopy", "build": name, "case": ln, "observed_impl": o,
                       "oracle": "Memory::Copy / SetToZero differs from memcpy / memset semantics (or crashed under ASan) at length:src_misalign:dst_misalign",
                       "format": "G <c|z> <lo> <hi>"})
    for (name, c, i, m, what) in [x for x in mem_diff if x[4] == "oracle"][:3]:
        found_input = True
        rep.violation({"component": "memcopy", "build": name, "case": c, "observed_impl": i, "model": m,
                       "oracle": "result differs from firstn n src ++ skipn n dst"})

    mism = r.mismatch
    mem_model_mism = [x for x in mem_diff if x[4] == "model"]
    if not found_input and (mism or mem_model_mism or cfg_bad or not proof_ok or r.bad):
        what = []
        if not proof_ok:
            what.append("coq/Properties_C14.vo no longer builds (theorems c14_* not re-established)")
        if mism:
            what.append("correspondence SeqModel step functions vs the C++ containers differs")
        if mem_model_mism:
            what.append("correspondence SeqModel.copy_blocks / zero_blocks vs Memory::Copy / SetToZero differs")
        if cfg_bad:
            what.append("Platform::SIMD configuration differs from the modelled (simd, shift): %s" % cfg_bad)
        if r.bad:
            what.append("driver output malformed: %s" % (r.bad[0],))
        ex = {"case": mism[0][0][:3000], "impl": mism[0][1][:1500], "model": mism[0][2][:1500]} if mism else None
        rep.violation({"broken": what, "first_mismatch": ex, "coq_log": st["log"][-3000:] if not proof_ok else "",
                       "searched_cases": len(cases)}, no_input=True)

    nt = len({c for c in cases if nontrivial(c)})
    rep.cov = dict(base_cov)
    rep.cov.update({
        "trusted_base": vlib.TRUSTED_BASE_COMMON + [
            "modelled: every public operation of Array / String / StringStream / StringView listed in coq/SeqModel.v (aop, sop, top, vop) over a block heap; Memory::Copy between containers at cell granularity; incl. Swap, range-for (begin/end), Last, IsEmpty and the templated stream-insertion operators (into a foreign sink type and into a StringStream subtype); ordering operators (<, <=, >, >=) and Sort are C15",
            "alignment / SIMD load-store behaviour of Memory::Copy / SetToZero: runtime only (exhaustive grid test), not proved"],
        "theorems": [{"name": n, "assumptions": a} for n, a in theorems],
        "evaluations": len(cases) + grid_combos + n_mem_samples + n_nested,
        "nested_ownership_scripts (mirror oracle, not modelled in Coq)": n_nested,
        "distinct_nontrivial": nt,
        "rule": "seeded random operation histories (3..60 steps) over a pool of 3 objects per container kind, widths char/char16_t/char32_t, every step's contents compared with the extracted heap model and the list specification under ASan+UBSan with exact-fit growth; Memory::Copy/SetToZero: %d lengths x 32 x 32 misalignments in 3 builds (%s), guard bytes, exact-size source; non-trivial = history contains an operation involving two (possibly identical) objects" % (nlens, "full 0..4096" if tier != "quick" else "0..300 + sample up to 4096"),
        "samples": [cases[0][:400], cases[len(cases) // 2][:400], cases[-1][:400]],
        "input_distribution": dist,
        "history_cases": len(cases),
        "memcopy_grid_combinations": grid_combos,
        "memcopy_model_samples": n_mem_samples,
        "traces_validated_against_impl": len(cases),
        "oracle_failures": len(r.oracle_fail) + len(grid_bad),
        "model_impl_mismatches": len(mism) + len(mem_model_mism),
        "crashes": len(r.crashes),
    })
    rep.assumptions = [
        "the theorems are about coq/SeqModel.v (the code after findings D18, D19, D20, D25, D50, D51); the C++ is tied by the differential run reported here (finite)",
        "Array<String<char>> elements are modelled as values (their own storage is C16's concern; the driver runs under the leak checker)",
        "self-move (a += Move(a), copy/move construction from itself) is outside the modelled domain",
        "LP64 little-endian, SizeT = 32 bit; lengths far below 2^32",
    ]
    return rep.finish()


def replay(path):
    d = json.load(open(path))
    case = d.get("case")
    if not case:
        print("replay names a broken obligation, not an input:", d.get("broken"))
        return 1
    if d.get("component") == "memcopy":
        name = d.get("build", "scalar")
        b = [x for x in BUILDS if x[0] == name][0]
        e, m = vlib.build_cpp("drv_memcopy_" + name, "drv_memcopy.cpp", defines=b[1], extra=b[2])
        if case.startswith("G"):
            out, crashes = vlib.run_sharded(e, [], [case], shards=1)
            print("case:", case, "\nimpl:", out[0])
            return 0 if out[0].startswith("ok:") else 1
        r = vlib.differential("seq", e, [case])
    else:
        exe, msg = vlib.build_cpp("drv_seq", "drv_seq.cpp")
        r = vlib.differential("seq", exe, [case])
    print("case:", case)
    for (c, i, m, tag) in r.oracle_fail:
        print("impl:", i, "\nmodel:", m, "\noracle: FAIL")
        return 1
    for (c, i, m) in r.mismatch:
        print("impl:", i, "\nmodel:", m, "\noracle: ok, model differs")
        return 1
    print("oracle ok, model agrees")
    return 0
