"""C05 -- parsing any code-unit string as JSON is memory-safe and terminates.

Proof: coq/Properties_C05.v (no out-of-bounds read, no cursor overrun, fuel sufficient, total result).
Tie:   random / token-soup / grammar / damaged texts in exact-size heap buffers (no terminator,
       NULs inside), four widths, ASan+UBSan; result compared with the extracted model (which
       would report ERR:OOB / ERR:PAST); deep nesting (512 / 2048 levels) under a 1 MiB stack."""
import os

import vlib
from vlib import fmt_list
from props import jsoncommon as jc

PROP = "C05"


def gen(rng, tier, boost):
    cases = []
    dist = {"random_text": 0, "grammar_doc": 0, "damaged_doc": 0}
    n = (30000 if tier == "quick" else 600000) * boost
    for _ in range(n):
        w = rng.randrange(4)
        cases.append("P %d %s" % (w, fmt_list(jc.gen_text(rng, w))))
        dist["random_text"] += 1
    # every kind of lexical token as the LAST units of the buffer (the case split of every look-ahead):
    # all prefixes of each token, bare and inside open containers
    toks = ["0", "-0", "7", "1.0", "7.0", "-3.0", "10.00", "0.0", "0.5", "1.", "1.5e", "1.5e+", "1.5e+3", "2E-", "2E-0", "1e5", "12345678901234567890",
            "18446744073709551615", "-9223372036854775808", "0x1F", ".5", "+1", "true", "false", "null", "\"abc\"", "\"a\\n\"", "\"\\u0041\"",
            "\"\\ud83d\\ude00\"", "\"\\", "\"\\u", "\"\\u00", "\"\\ud83d\\u", "\"\\ud83d\\ud", "[]", "{}", "{\"k\":1}", "[1,2]",
            "\"\\u00\u00e9\u00e9\"", "\"\\u\u0080\u0081\u00fe\u00ff\"", "0x\u00e9\u00e9", "\"\\ud83d\\ud\u00e9\u00e9\u00e9\""]
    ctxs = ["", "[", "[ ", "[1,", "{\"a\":", "{\"a\": ", "[[", "{\"a\":[", " "]
    for t in toks:
        for k in range(1, len(t) + 1):
            for c in ctxs:
                w = rng.randrange(4)
                cases.append("P %d %s" % (w, fmt_list(jc.asc(c + t[:k]))))
                dist["token_at_end"] = dist.get("token_at_end", 0) + 1
    # D92: a lone high surrogate escape with 0..8 ordinary units behind it, cut at every offset, all four widths
    # (the guard reads content[offset] and content[offset + 1]: both must stay inside the exact-size buffer)
    lone = jc.lone_surrogate_cases(rng, lambda r: range(4), "P", full=(tier != "quick"))
    cases.extend(lone)
    dist["lone_surrogate_cut"] = len(lone)
    # D93: escapes with 0..3 hexadecimal digits (either half of a pair), cut at every offset, all four widths
    short = jc.short_hex_cases(rng, lambda r: range(4), "P", full=(tier != "quick"))
    cases.extend(short)
    dist["short_hex_cut"] = len(short)
    # very short inputs: every single unit and every pair of units of the 8-bit alphabet whose first unit is a byte a
    # parser entry might look at (signature / byte-order-mark prefixes, quotes, brackets, signs, digits, NUL, 0xFF),
    # in all four widths; plus the 16/32-bit marks and all their proper prefixes
    firsts = [0xEF, 0xBB, 0xBF, 0xFE, 0xFF, 0x00, 0x22, 0x5B, 0x7B, 0x2D, 0x2B, 0x30, 0x31, 0x74, 0x66, 0x6E, 0x5C, 0x20, 0x09, 0x2E, 0x65]
    for a in range(256):
        cases.append("P %d %d" % (rng.randrange(4), a))
        dist["short_units"] = dist.get("short_units", 0) + 1
    for a in firsts:
        for b in range(256):
            cases.append("P %d %d,%d" % (0 if rng.random() < 0.7 else rng.randrange(4), a, b))
            dist["short_units"] += 1
    for mark in ([0xEF, 0xBB, 0xBF], [0xFEFF], [0xFFFE], [0xFF, 0xFE], [0xFE, 0xFF], [0, 0, 0xFE, 0xFF], [0xEF, 0xBB, 0xBF, 0x5B, 0x5D], [0xFEFF, 0x5B, 0x5D]):
        for k in range(1, len(mark) + 1):
            for w in range(4):
                if max(mark[:k]) <= [255, 65535, 0x10FFFF, 0x10FFFF][w]:
                    cases.append("P %d %s" % (w, fmt_list(mark[:k])))
                    dist["short_units"] += 1
    ndoc = (300 if tier == "quick" else 8000) * boost
    for _ in range(ndoc):
        w = rng.randrange(4)
        v, out = jc.gen_doc(rng, w, maxlen=rng.choice([30, 60, 200]))
        cases.append("P %d %s" % (w, fmt_list(jc.gen_ws(rng) + out.u + jc.gen_ws(rng))))
        dist["grammar_doc"] += 1
        for c, tag in jc.damaged_cases(rng, w, out, full=len(out.u) <= 60):
            cases.append("P" + c[1:])
            dist["damaged_doc"] += 1
    return cases, dist


def deep_run(rep, exe):
    """512 and 2048 levels of nesting with a 1 MiB stack: a test, not a proof"""
    lines = []
    for depth in (512, 2048):
        for shape in (0, 1, 2):
            for w in range(4):
                lines.append("Z %d %d,%d" % (w, depth, shape))
    exe_ns, msg = vlib.build_cpp("drv_json_nosan", "drv_json.cpp", san=False)
    ok = None
    if exe_ns:
        rc, out, err = vlib.run(["bash", "-c", "ulimit -s 1024; exec " + exe_ns], input="\n".join(lines) + "\n", timeout=300)
        got = out.split("\n")[:-1]
        bad = [l for l, o in zip(lines, got + ["CRASH"] * len(lines)) if not o.startswith("ok")]
        ok = (rc == 0 and len(got) == len(lines) and not bad)
        if not ok:
            first = bad[0] if bad else lines[len(got)] if len(got) < len(lines) else "?"
            rep.violation({"component": "json", "case": first, "oracle": "a document nested 512 / 2048 levels deep is parsed with a 1 MiB stack",
                           "observed_impl": "exit code %d, %d of %d lines" % (rc, len(got), len(lines)), "stderr": err[-500:]})
    return {"deep_nesting_levels": [512, 2048], "deep_nesting_stack_limit_kib": 1024, "deep_nesting_ok": ok}


def check(tier):
    return jc.run_check(PROP, tier, gen, "Properties_C05.v",
                        "no sanitizer report, no crash; an RFC 8259 text is not rejected; result equals the model's (which has explicit OOB outcomes)",
                        "random units / token soup / biased alphabet of length 0..320, generated documents and all their damaged variants, "
                        "in exact-size heap buffers without terminator, char/char16_t/char32_t/wchar_t, ASan+UBSan; non-trivial = distinct texts",
                        extra=deep_run)


def replay(path):
    return jc.replay(path)
