"""Shared machinery of the digit component checks (C09 text->number, C10 number->text,
C11 format(17)->parse).  Model: coq/DigitModel.v, specification oracles:
coq/DigitModelSpec.v (exact rational arithmetic, independent of the model),
implementation: cpp/drv_digit.cpp on /repo/Include (ASan+UBSan, exact-fit hook).

Decision per case (DESIGN.md section 4):
  code 1 and impl = model                      fine
  code 1 and impl != model                     correspondence mismatch
  code 0                                       oracle fails -> VIOLATION
  code >= 2 (precise predicate of a class)     KNOWN-FINDING iff the class is listed in
        KNOWN_FINDINGS.txt (or the file named by VERIF_KF_EXTRA) AND impl = model
        (the pinned wrong behaviour reproduced bit for bit); otherwise VIOLATION
"""
import json
import math
import os
import random
import re
import struct

import vlib

COMP = "digit"
TABLES = (("Tables_digit", "gentables_digit.cpp"),)
# oracle code -> class id, per property
KF_CODES = {
    "C09": {2: "KF-C09b"},
    "C10": {2: "KF-C10b", 3: "KF-C10c"},
    "C11": {},
}
KF_TEXT = {
    "KF-C09b": "Digit::stringToNumber rejects a well-formed numeral with 0 < |v| < 1e-325 (correctly rounded value: 0) as not-a-number; the repository's own suite pins this (1e-330 invalid)",
    "KF-C10b": "Digit::roundStringNumber decides half-way cases on the digit 5 and the dropped-bits flag, not on the exact value: the text is the reference rendering of the other rounding candidate (one unit in the last printed place)",
    "KF-C10c": "Digit::formatStringNumberFixed/Default trim zeros across the decimal point when the fraction rounds away: same significant digits as the reference, integer part's trailing zeros lost",
}


def known_classes(prop):
    res = {}
    for kv in vlib.known_findings(prop):
        res[kv.get("id")] = kv
    extra = os.environ.get("VERIF_KF_EXTRA")
    if extra and os.path.exists(extra):
        for line in open(extra):
            line = line.strip()
            if not line.startswith("finding:"):
                continue
            kv = dict(re.findall(r"(\w+)=((?:\"[^\"]*\")|\S+)", line))
            if kv.get("property") == prop:
                res[kv.get("id")] = kv
    return res


def units(s):
    return ",".join(str(ord(c)) for c in s) if s else "-"


def text_of(u):
    if u in ("-", ""):
        return ""
    try:
        return "".join(chr(int(x)) if 32 <= int(x) < 127 else "\\u%04x" % int(x) for x in u.split(","))
    except ValueError:
        return u


def dbits(x):
    return struct.unpack("<Q", struct.pack("<d", x))[0]


def bits_d(b):
    return struct.unpack("<d", struct.pack("<Q", b))[0]


def fbits(x):
    return struct.unpack("<I", struct.pack("<f", x))[0]


class Run:
    def __init__(self):
        self.rows = []       # (case, impl_full, impl, model, code, ref)
        self.crashes = []


def run_cases(exe, cases, timeout=3000):
    r = Run()
    if not cases:
        return r
    mexe, msg = vlib.build_ocaml(COMP)
    if mexe is None:
        raise RuntimeError("extracted model does not build: " + msg)
    impl, crashes = vlib.run_sharded(exe, [], cases, timeout=timeout)
    r.crashes = crashes
    fed = []
    for c, i in zip(cases, impl):
        tok = "CRASH" if i.startswith("CRASH") else (i.replace(" ", "_") if i else "EMPTY")
        fed.append(c + " " + tok)
    model, _ = vlib.run_sharded(mexe, [], fed, timeout=timeout)
    for c, i, m in zip(cases, impl, model):
        parts = m.split(" ")
        if len(parts) < 2 or not parts[1].isdigit():
            r.rows.append((c, i, i.split(";")[0], m, -1, None))
            continue
        ref = parts[2] if len(parts) > 2 else None
        r.rows.append((c, i, i.split(";")[0], parts[0], int(parts[1]), ref))
    return r


def describe(case, impl, model, ref):
    tk = case.split(" ")
    d = {"case": case, "observed_impl": impl, "model": model}
    if tk[0] == "P":
        d["format"] = "P <width> <units of the numeral>"
        d["text"] = text_of(tk[2])
    elif tk[0] in ("F", "G"):
        d["format"] = "%s <width> <fmt 0 default 1 fixed 2 semifixed> <precision> <bits> <prefix units>" % tk[0]
        b = int(tk[4])
        d["value"] = repr(bits_d(b)) if tk[0] == "F" else repr(struct.unpack("<f", struct.pack("<I", b))[0])
        d["impl_text"] = text_of(impl)
        if ref:
            d["reference_text"] = text_of(ref)
    elif tk[0] == "I":
        d["format"] = "I <width> <bits> <signed> <pattern> <prefix units>"
        d["impl_text"] = text_of(impl)
    else:
        d["format"] = "%s <width> <bits>: format(17 or 9 digits) then parse; result units|kind:bits:consumed" % tk[0]
        d["impl_text"] = text_of(impl.split("|")[0])
    return d


def judge(prop, rep, run, proof_ok, listed):
    """Apply the decision protocol.  Returns dict of counters."""
    cnt = {"ok": 0, "oracle_fail": 0, "mismatch": 0, "known": 0, "bad": 0, "crash": len(run.crashes), "spec_vs_libc_diff": 0}
    mism = []
    fails = []
    for (c, full, i, m, code, ref) in run.rows:
        same = (i == m)
        if code < 0:
            cnt["bad"] += 1
            mism.append((c, i, m, ref))
            continue
        # second opinion (diagnostic): snprintf / strtod against the Coq reference
        if ref is not None and ";sp=" in full and c.split(" ")[0] == "F":
            if full.split(";sp=")[1] != ref:
                cnt["spec_vs_libc_diff"] += 1
        if code == 1:
            if same:
                cnt["ok"] += 1
            else:
                cnt["mismatch"] += 1
                mism.append((c, i, m, ref))
        elif code >= 2 and KF_CODES[prop].get(code) in listed and same:
            kid = KF_CODES[prop][code]
            cnt["known"] += 1
            rep.known_finding(kid, KF_TEXT[kid] + " ; first case: " + c + " impl=" + text_of(i.split("|")[0]) + (" ref=" + text_of(ref) if ref else ""))
        else:
            cnt["oracle_fail"] += 1
            fails.append((c, i, m, code, ref, same))
    return cnt, mism, fails


def report(prop, rep, cnt, mism, fails, proof_ok, st, broken_name):
    seen = 0
    # smallest cases first
    for (c, i, m, code, ref, same) in sorted(fails, key=lambda t: len(t[0]))[:5]:
        d = describe(c, i, m, ref)
        d["oracle"] = "fails" + (" (matches the predicate of class %s, but %s)" % (
            KF_CODES[prop].get(code), "the class is not listed" if same else "model and implementation differ") if code >= 2 else "")
        d["model_agrees_with_impl"] = same
        d["broken"] = None if proof_ok else broken_name
        rep.violation(d)
        seen += 1
    if not seen and (mism or not proof_ok):
        what = []
        if not proof_ok:
            what.append("coq/%s no longer builds (theorems not re-established)" % broken_name)
        if mism:
            what.append("correspondence DigitModel vs Include/Digit.hpp differs (oracle satisfied on every case explored)")
        ex = None
        if mism:
            c, i, m, ref = sorted(mism, key=lambda t: len(t[0]))[0]
            ex = describe(c, i, m, ref)
        rep.violation({"broken": what, "first_mismatch": ex, "coq_log": st["log"][-3000:] if not proof_ok else "",
                       "searched_cases": sum(cnt[k] for k in ("ok", "oracle_fail", "mismatch", "known", "bad"))}, no_input=True)


def corpus_cases(prop):
    res = []
    p = os.path.join(vlib.ROOT, "corpus", prop, "cases.txt")
    if os.path.exists(p):
        for line in open(p):
            line = line.strip()
            if line and not line.startswith("#"):
                res.append(line)
    return res


def build_driver(rep, prop):
    exe, msg = vlib.build_cpp("drv_digit", "drv_digit.cpp")
    if exe is None:
        rep.violation({"broken": "cpp/drv_digit.cpp does not build against the current tree", "log": msg}, no_input=True)
    return exe


TRUSTED = vlib.TRUSTED_BASE_COMMON + [
    "tools/gentables_digit.cpp (prints DigitTable1/2, DigitConst<8>, RealNumberInfo, DigitChar, enumerators)",
    "modelled: Digit::stringToNumber, parseExponent, powerOfPositiveTen / powerOfNegativeTen, HexStringToNumber, IntToString (both directions), NumberToString, realToString, bigIntToString, bigIntDropDigits, formatStringNumberDefault / Fixed, roundStringNumber, insertPowerOfTen; StringStream Write / += / InsertAt / Reverse / StepBack as list operations",
    "abstraction: BigInt<uint64, W> is its value in N with an explicit overflow error (word-level algorithms are C19's subject); offsets are (count, suffix) pairs",
    "the specification oracles of coq/DigitModelSpec.v (exact integer / rational arithmetic; their own numeral grammar and decimal printer)",
]


# ---------------------------------------------------------------------------
# generators


def rand_digits(rng, n, first_nonzero=True):
    s = "".join(rng.choice("0123456789") for _ in range(n))
    if first_nonzero and s and s[0] == "0":
        s = rng.choice("123456789") + s[1:]
    return s


def rand_double_bits(rng, kind=None):
    kind = kind or rng.choice(["uniform", "binade", "binade", "edge", "sub", "pow10", "pow2", "decimal", "half", "int"])
    if kind == "uniform":
        while True:
            b = rng.getrandbits(64)
            if (b >> 52) & 0x7FF != 0x7FF:
                return b
    if kind == "binade":
        e = rng.randrange(0, 2047)
        return (rng.getrandbits(1) << 63) | (e << 52) | rng.getrandbits(52)
    if kind == "edge":
        e = rng.randrange(0, 2047)
        m = rng.choice([0, 1, 2, (1 << 52) - 1, (1 << 52) - 2, 1 << 51, (1 << 51) - 1, (1 << 51) + 1])
        return (rng.getrandbits(1) << 63) | (e << 52) | m
    if kind == "sub":
        return (rng.getrandbits(1) << 63) | rng.choice([rng.getrandbits(52), 1 << rng.randrange(52), (1 << rng.randrange(1, 53)) - 1, 1, 2, 3])
    if kind == "pow10":
        k = rng.randrange(-320, 309)
        try:
            b = dbits(float("1e%d" % k))
        except OverflowError:
            b = dbits(1e308)
        b = max(1, min(b + rng.randrange(-3, 4), 0x7FEFFFFFFFFFFFFF))
        return b | (rng.getrandbits(1) << 63)
    if kind == "pow2":
        b = (rng.randrange(1, 2047) << 52) + rng.randrange(-3, 4)
        return max(1, min(b, 0x7FEFFFFFFFFFFFFF)) | (rng.getrandbits(1) << 63)
    if kind == "decimal":
        k = rng.randrange(0, 7)
        x = rng.randrange(0, 10 ** rng.randrange(1, 10)) / (10 ** k)
        if rng.random() < 0.3:
            x = x / rng.randrange(1, 1000)
        return dbits(-x if rng.random() < 0.3 else x)
    if kind == "half":
        k = rng.randrange(0, 6)
        x = (rng.randrange(0, 10 ** rng.randrange(1, 8)) * 10 + 5) / (10 ** (k + 1))
        return dbits(x)
    x = float(rng.randrange(0, 1 << rng.randrange(1, 54)))
    return dbits(-x if rng.random() < 0.3 else x)


def rand_float_bits(rng):
    kind = rng.choice(["uniform", "binade", "edge", "sub", "decimal", "int", "pow10"])
    if kind == "uniform":
        while True:
            b = rng.getrandbits(32)
            if (b >> 23) & 0xFF != 0xFF:
                return b
    if kind == "binade":
        return (rng.getrandbits(1) << 31) | (rng.randrange(0, 255) << 23) | rng.getrandbits(23)
    if kind == "edge":
        return (rng.getrandbits(1) << 31) | (rng.randrange(0, 255) << 23) | rng.choice([0, 1, (1 << 23) - 1, 1 << 22])
    if kind == "sub":
        return (rng.getrandbits(1) << 31) | rng.choice([rng.getrandbits(23), 1, 2, (1 << 23) - 1])
    if kind == "decimal":
        return fbits(rng.randrange(0, 10 ** rng.randrange(1, 8)) / (10 ** rng.randrange(0, 6)))
    if kind == "pow10":
        b = fbits(float("1e%d" % rng.randrange(-44, 39))) + rng.randrange(-2, 3)
        return max(1, min(b, 0x7F7FFFFF))
    return fbits(float(rng.randrange(0, 1 << rng.randrange(1, 25))))


SPECIAL_D = [0, 1 << 63, 0x7FF0000000000000, 0xFFF0000000000000, 0x7FF8000000000000, 0x7FF0000000000001,
             0x7FEFFFFFFFFFFFFF, 0xFFEFFFFFFFFFFFFF, 1, (1 << 63) | 1, 0x000FFFFFFFFFFFFF, 0x0010000000000000,
             dbits(1.0), dbits(0.5), dbits(9.5), dbits(5.0), dbits(0.005), dbits(11150.001), dbits(1521525.3), dbits(0.9205),
             dbits(13220.409), dbits(23585.805), dbits(10.048), dbits(13440.034), dbits(99.5), dbits(999999.5), dbits(1e21), dbits(1e-5), dbits(123456789.0)]
SPECIAL_F = [0, 1 << 31, 0x7F800000, 0xFF800000, 0x7FC00000, 0x7F7FFFFF, 1, 0x007FFFFF, 0x00800000, fbits(1.0), fbits(0.5), fbits(3.14159274), fbits(0.005), fbits(16777216.0)]
