#!/usr/bin/env python3
"""Shared machinery of the Qentem verification checks.

Pipeline per check (DESIGN.md section 4):
  1. regenerate coq/gen/Tables.v from /repo's headers, `make` the property's
     Coq closure (proof obligations are re-checked against the current constants)
  2. build the extracted model driver (OCaml) and the C++ driver (from /repo's
     working tree, hooks on, ASan+UBSan)
  3. run corpus + generated cases through both, compare (correspondence) and
     judge the implementation's result with the specification oracle
  4. write evidence, print VIOLATION / KNOWN-FINDING lines
"""
import fcntl
import hashlib
import json
import os
import random
import re
import shutil
import subprocess
import sys
import time

ROOT = os.path.dirname(os.path.dirname(os.path.abspath(__file__)))
REPO = os.environ.get("VERIF_REPO", "/repo")
INC = os.path.join(REPO, "Include")
# side runs against scratch worktrees (seeded changes, harmless refactors) get a PRIVATE copy of the Coq tree: the generated
# tables under coq/gen/ depend on the headers of the tree under test and must not leak between concurrent runs
COQ = os.environ.get("VERIF_COQ_DIR") or os.path.join(ROOT, "coq")
SIDE = hashlib.sha256((REPO + "|" + COQ).encode()).hexdigest()[:8] if (REPO != "/repo" or os.environ.get("VERIF_COQ_DIR")) else ""
BUILD = os.path.join(ROOT, "build")
EVID = os.environ.get("VERIF_EVIDENCE_DIR") or os.path.join(ROOT, "evidence")    # override: side runs (other seeds, scratch worktrees) that must not replace the committed evidence
REPLAYS = os.path.join(os.environ["VERIF_EVIDENCE_DIR"], "replays") if os.environ.get("VERIF_EVIDENCE_DIR") else os.path.join(ROOT, "replays")
GUARD = "QENTEM_VERIF"
NPROC = os.cpu_count() or 4

CXX = "g++"
CXX_BASE = ["-std=c++17", "-O1", "-g", "-fno-omit-frame-pointer", "-fno-exceptions", "-D" + GUARD + "=1"]
SAN = ["-fsanitize=address,undefined", "-fno-sanitize-recover=all"]
SAN_ENV = {
    "TSAN_OPTIONS": "halt_on_error=1:exitcode=66:second_deadlock_stack=1",
    "ASAN_OPTIONS": "detect_leaks=1:abort_on_error=0:exitcode=66:allocator_may_return_null=1:detect_stack_use_after_return=0",
    "UBSAN_OPTIONS": "print_stacktrace=1:halt_on_error=1:exitcode=66",
}


def log(*a):
    print("[verif]", *a, file=sys.stderr, flush=True)


def seed_from_env():
    try:
        return int(os.environ.get("VERIF_SEED", "1"))
    except ValueError:
        return 1


def ensure_dirs():
    for d in (BUILD, EVID, REPLAYS):
        os.makedirs(d, exist_ok=True)


class Lock:
    """Serialises builds when several checks run at once."""

    def __init__(self, name):
        ensure_dirs()
        self.path = os.path.join(BUILD, name + ".lock")

    def __enter__(self):
        self.f = open(self.path, "w")
        fcntl.flock(self.f, fcntl.LOCK_EX)
        return self

    def __exit__(self, *a):
        fcntl.flock(self.f, fcntl.LOCK_UN)
        self.f.close()


def run(cmd, timeout=None, cwd=None, env=None, input=None):
    e = dict(os.environ)
    if env:
        e.update(env)
    try:
        p = subprocess.run(cmd, cwd=cwd, env=e, input=input, stdout=subprocess.PIPE, stderr=subprocess.PIPE,
                           timeout=timeout, text=True, errors="replace")
        return p.returncode, p.stdout, p.stderr
    except subprocess.TimeoutExpired as ex:
        out = ex.stdout if isinstance(ex.stdout, str) else (ex.stdout or b"").decode(errors="replace")
        err = ex.stderr if isinstance(ex.stderr, str) else (ex.stderr or b"").decode(errors="replace")
        return 124, out, err + "\n[timeout]"


def tree_hash(paths, extra=""):
    h = hashlib.sha256()
    h.update(extra.encode())
    for p in paths:
        if os.path.isdir(p):
            for dp, dn, fn in sorted(os.walk(p)):
                dn.sort()
                for f in sorted(fn):
                    fp = os.path.join(dp, f)
                    h.update(fp.encode())
                    with open(fp, "rb") as fh:
                        h.update(fh.read())
        elif os.path.exists(p):
            h.update(p.encode())
            with open(p, "rb") as fh:
                h.update(fh.read())
    return h.hexdigest()


# ---------------------------------------------------------------------------
# step 1: tables + Coq


def gen_tables(name="Tables", srcname="gentables.cpp"):
    """Rebuild a table generator against the current headers and refresh
    coq/gen/<name>.v.  Returns (ok, changed, message)."""
    ensure_dirs()
    with Lock("coq" + SIDE):
        exe = os.path.join(BUILD, "gen_" + name + ("" if REPO == "/repo" else "_" + hashlib.sha256(REPO.encode()).hexdigest()[:8]))
        src = os.path.join(ROOT, "tools", srcname)
        key = tree_hash([INC, src])
        keyf = exe + ".key"
        if not (os.path.exists(exe) and os.path.exists(keyf) and open(keyf).read() == key):
            rc, out, err = run([CXX, "-std=c++17", "-O0", "-w", "-I" + INC, src, "-o", exe], timeout=300)
            if rc != 0:
                return False, False, srcname + " does not compile against the current headers:\n" + err[-3000:]
            open(keyf, "w").write(key)
        rc, out, err = run([exe], timeout=120)
        if rc != 0:
            return False, False, srcname + " failed: " + err[-2000:]
        tv = os.path.join(COQ, "gen", name + ".v")
        old = open(tv).read() if os.path.exists(tv) else None
        if old != out:
            os.makedirs(os.path.dirname(tv), exist_ok=True)
            open(tv, "w").write(out)
            return True, old is not None, name + ".v rewritten"
        return True, False, name + ".v unchanged"


def coq_makefile():
    """_CoqProject is derived from the directory listing (one logical root Qv)."""
    mk = os.path.join(COQ, "Makefile")
    cp = os.path.join(COQ, "_CoqProject")
    files = sorted(["gen/" + f for f in os.listdir(os.path.join(COQ, "gen")) if f.endswith(".v")]) + \
        sorted(f for f in os.listdir(COQ) if f.endswith(".v") and not f.startswith("."))
    want = "-Q . Qv\n" + "\n".join(files) + "\n"
    if not os.path.exists(cp) or open(cp).read() != want:
        open(cp, "w").write(want)
    if not os.path.exists(mk) or os.path.getmtime(mk) < os.path.getmtime(cp):
        rc, out, err = run(["coq_makefile", "-f", "_CoqProject", "-o", "Makefile"], cwd=COQ, timeout=120)
        if rc != 0:
            raise RuntimeError("coq_makefile failed: " + err)


def coq_make(targets, timeout=1500, clean=False):
    """make the given .vo targets (full .vo build, never -vos). Returns (ok, log)."""
    with Lock("coq" + SIDE):
        coq_makefile()
        if clean:
            run(["make", "clean"], cwd=COQ, timeout=300)
        # address-space limit: a diverging tactic must fail, not eat the machine
        rc, out, err = run(["bash", "-c", "ulimit -v 12000000; exec make -k -j%d %s" % (NPROC, " ".join(targets))], cwd=COQ, timeout=timeout)
        return rc == 0, out + err


AUDIT_RE = re.compile(r"\b(Admitted|admit|Axiom|Axioms|Parameter|Parameters|Conjecture|Hypothesis|Variable|Hypotheses|Variables)\b|Unset\s+Guard|bypass_check|type-in-type|impredicative-set|Admit Obligations|native_compute")


def strip_coq_comments(src):
    out = []
    depth = 0
    i = 0
    n = len(src)
    while i < n:
        if src.startswith("(*", i):
            depth += 1
            i += 2
        elif src.startswith("*)", i) and depth > 0:
            depth -= 1
            i += 2
        else:
            if depth == 0:
                out.append(src[i])
            elif src[i] == "\n":
                out.append("\n")
            i += 1
    return "".join(out)


def coq_closure(prop_v):
    """the .v files a property file depends on (transitively), via coqdep -sort"""
    rc, out, err = run(["coqdep", "-Q", ".", "Qv", "-sort", prop_v], cwd=COQ, timeout=300)
    files = [x for x in out.split() if x.endswith(".v")]
    return [os.path.normpath(os.path.join(COQ, x)) for x in files] if rc == 0 and files else None


def coq_audit(prop_v=None):
    """grep the development (the dependency closure of the property file; the
    whole directory when it cannot be computed) for anything that would declare
    an axiom or switch a kernel check off.  Variable/Hypothesis are allowed only
    inside a Section."""
    bad = []
    closure = coq_closure(prop_v) if prop_v else None
    if closure is None:
        closure = [os.path.join(dp, f) for dp, dn, fn in os.walk(COQ) for f in fn if f.endswith(".v")]
    for p in closure:
        if True:
            if not os.path.exists(p):
                continue
            src = strip_coq_comments(open(p).read())
            depth = 0
            for ln, line in enumerate(src.split("\n"), 1):
                if re.match(r"\s*Section\b", line):
                    depth += 1
                if re.match(r"\s*End\b", line) and depth > 0:
                    # closes a Section or a Module; Modules are not used in this development
                    depth -= 1
                for m in AUDIT_RE.finditer(line):
                    w = m.group(0)
                    if w in ("Variable", "Variables", "Hypothesis", "Hypotheses") and depth > 0:
                        continue
                    bad.append("%s:%d: %s" % (os.path.relpath(p, ROOT), ln, line.strip()[:120]))
    return bad


def coq_assumptions(prop_v):
    """Re-run coqc on a Properties_Cnn.v (it holds only `exact lemma` proofs) and
    return [(theorem, assumptions-text)]."""
    with Lock("coq" + SIDE):
        rc, out, err = run(["bash", "-c", "ulimit -v 12000000; exec coqc -Q . Qv " + prop_v], cwd=COQ, timeout=900)
    if rc != 0:
        return None, out + err
    src = strip_coq_comments(open(os.path.join(COQ, prop_v)).read())
    names = re.findall(r"Print Assumptions\s+([A-Za-z0-9_']+)\s*\.", src)
    # output: one block per Print Assumptions, either "Closed under the global context" or "Axioms:\n..."
    blocks = []
    cur = None
    for line in out.split("\n"):
        if line.startswith("Closed under the global context"):
            blocks.append("Closed under the global context")
            cur = None
        elif line.startswith("Axioms:"):
            blocks.append("Axioms:")
            cur = len(blocks) - 1
        elif cur is not None and line.strip():
            blocks[cur] += " " + line.strip()
    res = []
    for i, n in enumerate(names):
        res.append((n, blocks[i] if i < len(blocks) else "?"))
    return res, out + err


# ---------------------------------------------------------------------------
# step 2: drivers


def build_ocaml(comp):
    """(Re)build the extracted model driver of a component when
    coq/model_<comp>.ml (written by Extract_<comp>.v) or its glue changed."""
    ensure_dirs()
    with Lock("ocaml_" + comp + SIDE):
        od = os.path.join(BUILD, "ocaml_" + comp + (("_" + SIDE) if SIDE else ""))
        os.makedirs(od, exist_ok=True)
        exe = os.path.join(od, "mdriver")
        srcs = [os.path.join(COQ, "model_%s.mli" % comp), os.path.join(COQ, "model_%s.ml" % comp),
                os.path.join(ROOT, "ocaml", "util.ml"), os.path.join(ROOT, "ocaml", comp + ".ml")]
        for s in srcs:
            if not os.path.exists(s):
                return None, "missing " + s
        key = tree_hash(srcs)
        keyf = exe + ".key"
        if os.path.exists(exe) and os.path.exists(keyf) and open(keyf).read() == key:
            return exe, "cached"
        shutil.copy(srcs[0], os.path.join(od, "model.mli"))
        shutil.copy(srcs[1], os.path.join(od, "model.ml"))
        with open(os.path.join(od, "driver.ml"), "w") as f:
            f.write(open(srcs[2]).read() + "\n" + open(srcs[3]).read())
        rc, out, err = run(["ocamlfind", "ocamlopt", "-O3", "-w", "-a", "-package", "str", "-linkpkg", "model.mli", "model.ml", "driver.ml", "-o", "mdriver"],
                           cwd=od, timeout=900)
        if rc != 0:
            rc, out, err = run(["ocamlfind", "ocamlopt", "-w", "-a", "-package", "str", "-linkpkg", "model.mli", "model.ml", "driver.ml", "-o", "mdriver"],
                               cwd=od, timeout=900)
        if rc != 0:
            return None, err[-4000:]
        open(keyf, "w").write(key)
        return exe, "built"


def build_cpp(name, src, defines=(), san=True, extra=(), opt=None, std_inc=True, hook=True):
    """Build a C++ driver against /repo/Include (current working tree)."""
    ensure_dirs()
    if REPO != "/repo":
        # scratch trees get their own binaries (several authors / mutations may build at once)
        name = name + "_" + hashlib.sha256(REPO.encode()).hexdigest()[:8]
    with Lock("cpp_" + name):
        exe = os.path.join(BUILD, name)
        srcp = os.path.join(ROOT, "cpp", src)
        sanflags = ["-fsanitize=thread", "-pthread"] if san == "thread" else (SAN if san else [])
        flags = list(CXX_BASE) + sanflags + ["-D" + d for d in defines] + list(extra)
        if not hook:
            # the library's own growth policy (slack capacity): paths that only exist when
            # Size() < Capacity() are not reachable with the exact-fit hook
            flags = [f for f in flags if f != "-D" + GUARD + "=1"]
        if opt:
            flags = [f for f in flags if not f.startswith("-O")] + [opt]
        if os.environ.get("VERIF_COVERAGE"):
            # diagnostic builds for tools/coverage.py: which lines of Include/ the checks' cases reach (never used for a verdict)
            covdir = os.environ["VERIF_COVERAGE"] if os.environ["VERIF_COVERAGE"].startswith("/") else os.path.join(BUILD, "cov")
            os.makedirs(covdir, exist_ok=True)
            exe = os.path.join(covdir, name)
            flags = [f for f in flags if not f.startswith("-O")] + ["-O0", "--coverage"]
        key = tree_hash([INC, os.path.join(ROOT, "cpp")], src + " " + " ".join(flags))     # the whole cpp/ directory: drivers include one another
        keyf = exe + ".key"
        if os.path.exists(exe) and os.path.exists(keyf) and open(keyf).read() == key:
            return exe, "cached"
        rc, out, err = run([CXX] + flags + ["-I" + INC, "-I" + os.path.join(ROOT, "cpp"), srcp, "-o", exe], timeout=3600)     # generous: a loaded machine must not turn a slow compile into a verdict
        if rc != 0:
            return None, err[-6000:]
        open(keyf, "w").write(key)
        return exe, "built"


def run_lines(exe, args, lines, timeout=1800, env=None):
    """Feed lines on stdin, return (rc, output lines, stderr)."""
    e = dict(SAN_ENV)
    if env:
        e.update(env)
    rc, out, err = run([exe] + list(args), input="\n".join(lines) + "\n", timeout=timeout, env=e)
    return rc, out.split("\n")[:-1] if out.endswith("\n") else out.split("\n"), err


def run_sharded(exe, args, lines, shards=None, timeout=1800, env=None, case_timeout=30):
    """Run a line-per-case driver over several processes; results in order.
    A crashed shard yields fewer lines than cases; missing lines become 'CRASH <stderr tail>'."""
    import concurrent.futures as cf
    if not lines:
        return [], []
    shards = shards or min(NPROC, max(1, len(lines) // 200))
    size = (len(lines) + shards - 1) // shards
    chunks = [lines[i:i + size] for i in range(0, len(lines), size)]

    def work(ch):
        rc, out, err = run_lines(exe, args, ch, timeout=timeout, env=env)
        return rc, out, err

    res = []
    crashes = []
    retried = 0
    with cf.ThreadPoolExecutor(max_workers=len(chunks)) as ex:
        for ch, (rc, out, err) in zip(chunks, ex.map(work, chunks)):
            if len(out) < len(ch):
                # the case after the last complete line crashed the process: judge that case alone, then go on with
                # the rest as a batch again (a tree with many crashing cases costs two launches per crash, not one per case)
                res.extend(out)
                rest = ch[len(out):]
                while rest:
                    ln = rest[0]
                    rc1, out1, err1 = run_lines(exe, args, [ln], timeout=case_timeout, env=env)
                    if rc1 == 124 and "[timeout]" in err1 and retried < 5:
                        # a loaded machine must not turn into a verdict: one retry with four times the limit
                        # (for the first few cases only; a change that makes hundreds of cases loop is decided by those)
                        retried += 1
                        rc1, out1, err1 = run_lines(exe, args, [ln], timeout=case_timeout * 4, env=env)
                    if len(out1) >= 1 and rc1 == 0:
                        res.append(out1[0])
                    else:
                        tag = sanitizer_summary(err1)
                        res.append("CRASH " + tag)
                        crashes.append((ln, err1[-3000:]))
                    rest = rest[1:]
                    if rest:
                        rc2, out2, err2 = run_lines(exe, args, rest, timeout=timeout, env=env)
                        out2 = out2[:len(rest)]
                        res.extend(out2)
                        rest = rest[len(out2):]
            else:
                res.extend(out[:len(ch)])
    return res, crashes


def sanitizer_summary(err):
    m = re.search(r"SUMMARY: (\w+): ([\w-]+) ([^\n]*)", err)
    if m:
        loc = re.search(r"(Include/\w+\.hpp:\d+)", err)
        return "%s:%s%s" % (m.group(1), m.group(2), (" " + loc.group(1)) if loc else "")
    m = re.search(r"runtime error: ([^\n]*)", err)
    if m:
        return "UBSan:" + m.group(1)[:100].replace(" ", "_")
    if "[timeout]" in err:
        return "TIMEOUT"
    return "signal-or-exit"


# ---------------------------------------------------------------------------
# known findings


def known_findings(prop):
    res = []
    p = os.path.join(ROOT, "KNOWN_FINDINGS.txt")
    if not os.path.exists(p):
        return res
    for line in open(p):
        line = line.strip()
        if not line.startswith("finding:"):
            continue
        kv = dict(re.findall(r"(\w+)=((?:\"[^\"]*\")|\S+)", line))
        if kv.get("property") == prop:
            kv = {k: v.strip('"') for k, v in kv.items()}
            kv["_line"] = line
            res.append(kv)
    return res


# ---------------------------------------------------------------------------
# reporting


class Report:
    def __init__(self, prop, tier, level):
        ensure_dirs()
        self.prop = prop
        self.tier = tier
        self.level = level
        self.seed = seed_from_env()
        self.t0 = time.time()
        self.violations = []
        self.known = {}
        self.cov = {}
        self.assumptions = []
        self.notes = []
        self.nrep = 0

    def violation(self, replay, no_input=False):
        self.nrep += 1
        path = os.path.join(REPLAYS, "%s_%s_%d.json" % (self.prop, self.tier, self.nrep))
        replay = dict(replay)
        replay["property"] = self.prop
        with open(path, "w") as f:
            json.dump(replay, f, indent=1, default=str)
        line = "VIOLATION property=%s replay=%s" % (self.prop, path)
        if no_input:
            line += " no-failing-input-found"
        self.violations.append(line)
        print(line, flush=True)

    def known_finding(self, kid, what):
        if kid not in self.known:
            self.known[kid] = 0
            print("KNOWN-FINDING: property=%s %s %s" % (self.prop, kid, what), flush=True)
        self.known[kid] += 1

    def finish(self):
        ev = {
            "property_id": self.prop,
            "tier": self.tier,
            "seed": self.seed,
            "level": self.level,
            "coverage": self.cov,
            "assumptions": self.assumptions,
            "wall_s": round(time.time() - self.t0, 2),
            "violations": len(self.violations),
        }
        if self.known:
            ev["coverage"]["known_findings_hit"] = self.known
        if self.notes:
            ev["coverage"]["notes"] = self.notes
        with open(os.path.join(EVID, self.prop + ".json"), "w") as f:
            json.dump(ev, f, indent=1, default=str)
        rc = 1 if self.violations else 0
        log("%s %s: %s in %.1fs" % (self.prop, self.tier, "VIOLATIONS=%d" % len(self.violations) if rc else "ok", time.time() - self.t0))
        return rc


TRUSTED_BASE_COMMON = [
    "Coq 8.16.1 kernel incl. vm_compute (no native_compute)",
    "the hand-written Gallina model of the named C++ functions (tied to /repo only by the regenerated constant tables and the differential correspondence run)",
    "tools/gentables.cpp (prints constants from the current headers)",
    "Coq extraction (ExtrOcamlBasic only, no Extract Constant) + OCaml 4.13.1",
    "C++ drivers under /verif/cpp, g++ 12 with ASan/UBSan, tools/*.py generators and comparison",
]


def proof_stage(rep, prop_v, comps, tables=(("Tables", "gentables.cpp"),), extra_targets=(), clean=False):
    """Step 1 of the protocol: regenerate the tables, make the property file and
    the extraction of the named components.  Returns dict(ok, theorems, log)."""
    res = {"ok": False, "theorems": [], "log": "", "tables_changed": False, "tables_ok": True, "extract_ok": True}
    for (name, src) in tables:
        ok_t, changed, msg = gen_tables(name, src)
        rep.notes.append("tables: " + msg)
        res["tables_changed"] = res["tables_changed"] or changed
        if not ok_t:
            res["tables_ok"] = False
            res["log"] = msg
            return res
    target = prop_v.replace(".v", ".vo")
    ex_targets = ["Extract_%s.vo" % c for c in comps]
    ok_e, elog = coq_make(ex_targets, clean=clean)
    res["extract_ok"] = ok_e
    ok, mlog = coq_make([target] + list(extra_targets))
    mlog = (elog if not ok_e else "") + mlog
    ok = ok and ok_e
    res["log"] = mlog[-6000:]
    audit = coq_audit(prop_v)
    if audit:
        res["log"] += "\nAUDIT: forbidden constructs:\n" + "\n".join(audit)
        res["audit"] = audit
        ok = False
    if ok:
        thms, alog = coq_assumptions(prop_v)
        if thms is None:
            ok = False
            res["log"] += alog[-3000:]
        else:
            res["theorems"] = thms
    res["ok"] = ok
    if ok and getattr(rep, "tier", "quick") == "thorough" and os.environ.get("VERIF_NO_COQCHK") != "1":
        # independent re-check of the compiled closure + the axioms it relies on
        # (reads the compiled files only: no build lock; a time-out is recorded, not judged -- coqchk has
        # no vm and re-evaluates the exhaustive sweeps with the kernel's lazy reduction, which can take hours)
        rc, out, err = run(["bash", "-c", "ulimit -v 12000000; exec coqchk -o -silent -Q . Qv Qv." + prop_v[:-2]], cwd=COQ, timeout=1500)
        summ = out[out.find("CONTEXT SUMMARY"):] if "CONTEXT SUMMARY" in out else (out + err)[-1500:]
        res["coqchk"] = {"rc": rc, "summary": " ".join(summ.split())[:1500]}
        if rc == 124:
            rep.notes.append("coqchk -o Qv.%s: timed out after 1500 s (not judged; coqc accepted every file)" % prop_v[:-2])
        else:
            rep.notes.append("coqchk -o Qv.%s: rc=%d %s" % (prop_v[:-2], rc, res["coqchk"]["summary"][:600]))
            if rc != 0:
                res["ok"] = False
                res["log"] += "\ncoqchk failed: " + (out + err)[-2000:]
    return res


def fmt_list(xs):
    return ",".join(str(x) for x in xs) if xs else "-"


def parse_list(s):
    s = s.strip()
    if s == "-" or s == "":
        return []
    return [int(x) for x in s.split(",")]


# ---------------------------------------------------------------------------
# step 3: differential run + decision protocol


class DiffResult:
    def __init__(self):
        self.n = 0
        self.oracle_fail = []      # (case, I, M, tag)   S failed
        self.mismatch = []         # (case, I, M)        S ok, I != M
        self.crashes = []          # (case, stderr tail)
        self.bad = []              # malformed driver output


def differential(comp, exe, cases, impl_args=(), env=None, eq=None, timeout=3600, model_args=()):
    """Run the implementation driver, then the extracted model+oracle on
    (case, impl result).  Model driver prints '<M> <S>' per line (S in {0,1})."""
    res = DiffResult()
    if not cases:
        return res
    mexe, msg = build_ocaml(comp)
    if mexe is None:
        raise RuntimeError("extracted model does not build: " + msg)
    impl, crashes = run_sharded(exe, list(impl_args), cases, timeout=timeout, env=env)
    res.crashes = crashes
    fed = []
    for c, i in zip(cases, impl):
        tok = i.split(" ")[0] if i.startswith("CRASH") else i
        fed.append(c + " " + tok)
    model, mcr = run_sharded(mexe, list(model_args), fed, timeout=timeout)
    res.n = len(cases)
    for c, i, m in zip(cases, impl, model):
        parts = m.rsplit(" ", 1)
        if len(parts) != 2 or parts[1] not in ("0", "1"):
            res.bad.append((c, i, m))
            continue
        mo, s = parts
        same = (eq(i, mo) if eq else i == mo)
        if s == "0":
            res.oracle_fail.append((c, i, mo, "same" if same else "diff"))
        elif not same:
            res.mismatch.append((c, i, mo))
    return res


def shrink_list(units, fails, max_steps=400):
    """delta-debugging on a list: returns a smaller list on which fails() still holds."""
    cur = list(units)
    steps = 0
    chunk = max(1, len(cur) // 2)
    while chunk >= 1 and steps < max_steps:
        i = 0
        changed = False
        while i < len(cur) and steps < max_steps:
            cand = cur[:i] + cur[i + chunk:]
            steps += 1
            if fails(cand):
                cur = cand
                changed = True
            else:
                i += chunk
        if not changed:
            chunk //= 2
    return cur
