#!/bin/bash
# apply_finding.sh <slug> "<commit message>"   (lead only)
# findings/<slug>.patch + findings/<slug>.cpp : reproducer must fail (rc!=0) before and pass after;
# the repository suite must stay green; then commit to /repo as one "fix:" commit.
set -u
S="$1"; MSG="$2"; F=/verif/findings
CXX="g++ -std=c++17 -g -O1 -fsanitize=address,undefined -fno-sanitize-recover=all -DQENTEM_VERIF=1 -I/repo/Include -I$F"
[ -n "$(git -C /repo status --porcelain --untracked-files=no)" ] && { echo "repo dirty"; exit 2; }
$CXX $F/$S.cpp -o /tmp/rep_$S 2>/tmp/rep_$S.log || { echo "reproducer does not build"; tail -5 /tmp/rep_$S.log; exit 2; }
/tmp/rep_$S >/tmp/rep_$S.before 2>&1; B=$?
git -C /repo apply --whitespace=nowarn $F/$S.patch || { echo "PATCH DOES NOT APPLY"; exit 3; }
$CXX $F/$S.cpp -o /tmp/rep_$S 2>/tmp/rep_$S.log || { echo "reproducer does not build after patch"; tail -5 /tmp/rep_$S.log; git -C /repo checkout -- .; exit 2; }
/tmp/rep_$S >/tmp/rep_$S.after 2>&1; A=$?
echo "$S: reproducer before rc=$B after rc=$A"
if [ "$B" -eq 0 ] || [ "$A" -ne 0 ]; then echo "REPRODUCER DOES NOT DISCRIMINATE"; tail -3 /tmp/rep_$S.after; git -C /repo checkout -- .; exit 4; fi
if ! bash /verif/tools/baseline_off.sh /repo | tail -1 | grep -q "all tests passed"; then echo "SUITE FAILS"; git -C /repo checkout -- .; exit 5; fi
git -C /repo commit -qam "$MSG" && git -C /repo log --oneline | head -1
rm -f /tmp/rep_$S /tmp/rep_$S.*
