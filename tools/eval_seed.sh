#!/bin/bash
# eval_seed.sh <src-dir> <mutation m1|m2> <seed-id> <property...>
# Confirms a seeded breaking change (compiles, repo tests pass, demo discriminates) in a scratch
# worktree at /repo's HEAD and runs the named checks against it; stores it under /verif/seeded/<seed-id>/.
set -u
SRC="$1"; M="$2"; ID="$3"; shift 3
WT=/tmp/evalwt_$ID; OUT=/verif/seeded/$ID
rm -rf "$WT"; git -C /repo worktree prune; git -C /repo worktree add --detach "$WT" HEAD -q || exit 2
mkdir -p "$OUT"; cp "$SRC/$M.diff" "$OUT/patch.diff"; cp "$SRC/${M}_demo.cpp" "$OUT/demo.cpp"; cp "$SRC/$M.json" "$OUT/agent_meta.json"
SAN=""; grep -q "fsanitize" "$OUT/demo.cpp" "$OUT/agent_meta.json" && SAN="-fsanitize=address,undefined -fno-sanitize-recover=all"
CX="g++ -std=c++17 -g -pthread $SAN -I$WT/Include $OUT/demo.cpp -o /tmp/demo_$ID"
$CX 2>/tmp/demo_$ID.log || { echo "demo does not build on clean tree"; tail -3 /tmp/demo_$ID.log; }
timeout 120 /tmp/demo_$ID >/dev/null 2>&1; CLEAN=$?
git -C "$WT" apply --whitespace=nowarn "$OUT/patch.diff" || { echo "PATCH DOES NOT APPLY to current HEAD"; git -C /repo worktree remove --force "$WT"; exit 3; }
$CX 2>/tmp/demo_$ID.log || { echo "does not compile with the change"; tail -3 /tmp/demo_$ID.log; }
timeout 120 /tmp/demo_$ID >/dev/null 2>&1; MUT=$?
TESTS=$(bash /verif/tools/baseline_off.sh "$WT" | tail -1)
echo "[$ID] demo clean rc=$CLEAN mutated rc=$MUT ; $TESTS"
CQ=/var/tmp/coq_$ID; rm -rf "$CQ" "$CQ.ev"; cp -a /verif/coq "$CQ"     # private Coq tree: generated tables follow the tree under test
RES=""
for P in "$@"; do
  L=$(VERIF_COQ_DIR="$CQ" VERIF_EVIDENCE_DIR="$CQ.ev" VERIF_REPO="$WT" timeout 1800 python3 /verif/tools/check.py "$P" --tier quick 2>&1 | grep -E "^VIOLATION|^KNOWN-FINDING|\[verif\] $P" | head -4 | tr '\n' ' ')
  echo "[$ID] $P: $L"
  if echo "$L" | grep -q "VIOLATION"; then RES="$RES $P:caught"; else RES="$RES $P:missed"; fi
done
python3 - "$OUT" "$ID" "$CLEAN" "$MUT" "$TESTS" "$RES" <<'PY'
import json, sys
out, sid, clean, mut, tests, res = sys.argv[1:7]
a = json.load(open(out + "/agent_meta.json"))
meta = {"seed_id": sid, "property": a.get("property"), "summary": a.get("summary"), "needs_to_manifest": a.get("needs"),
        "confirmed": {"demo_rc_unmodified": int(clean), "demo_rc_with_change": int(mut), "repo_tests_with_change": tests,
                      "how": "scratch worktree of /repo HEAD, tools/eval_seed.sh"},
        "checks_run": res.strip().split()}
json.dump(meta, open(out + "/meta.json", "w"), indent=1)
PY
rm -f "$OUT/agent_meta.json" /tmp/demo_$ID /tmp/demo_$ID.log
git -C /repo worktree remove --force "$WT"
rm -rf "$CQ" "$CQ.ev"
