#!/usr/bin/env python3
"""tmpl_triage.py <seed> <n>: fuzz the template renderer (C01 generator), group
sanitizer reports by site, minimise one example per site (template text and
value).  Development aid; not registered in the manifest."""
import sys, random, collections, json, os
sys.path.insert(0, os.path.join(os.path.dirname(os.path.abspath(__file__))))
sys.path.insert(0, os.path.join(os.path.dirname(os.path.abspath(__file__)), "props"))
import vlib, tmplgen as g

def main():
    exe, msg = vlib.build_cpp("drv_tmpl", "drv_tmpl.cpp")
    rng = random.Random(int(sys.argv[1]) if len(sys.argv) > 1 else 1)
    N = int(sys.argv[2]) if len(sys.argv) > 2 else 3000
    cases = []
    for i in range(N):
        root = g.gen_root(rng)
        r = rng.random()
        if r < 0.4:
            t = g.print_nodes(g.gen_nodes(rng, [], 0))
        elif r < 0.8:
            t = g.print_nodes(g.gen_nodes(rng, [], 0))
            for _ in range(rng.choice([1, 1, 2, 3])):
                t = g.mutate(rng, t)
        else:
            t = g.token_soup(rng, rng.randrange(1, 25))
        w = rng.choice([0, 0, 1, 2, 3])
        cases.append((w, t, root))
    res, crashes = vlib.run_sharded(exe, [], [g.case_line(w, 0, t, v) for w, t, v in cases])
    groups = collections.defaultdict(list)
    for (w, t, v), r in zip(cases, res):
        if r.startswith("CRASH"):
            groups[r].append((w, t, v))
    print("total", len(cases), "crashes", sum(len(x) for x in groups.values()))
    for tag, lst in sorted(groups.items(), key=lambda kv: -len(kv[1])):
        w, t, v = min(lst, key=lambda x: len(x[1]))

        def crash(tt, vv):
            out, _ = vlib.run_sharded(exe, [], [g.case_line(w, 0, tt, vv)], shards=1)
            return out and out[0] == tag
        tl = vlib.shrink_list(list(t), lambda u: crash("".join(u), v), max_steps=300)
        t2 = "".join(tl)
        # shrink the value: try dropping root members
        v2 = v
        if isinstance(v, dict):
            for k in list(v.keys()):
                cand = {a: b for a, b in v2.items() if a != k}
                if crash(t2, cand):
                    v2 = cand
        print(len(lst), tag)
        print("   w=%d tmpl=%r" % (w, t2))
        print("   value=%s" % json.dumps(v2))

main()
