#!/bin/bash
# setup_cmd: build the framework offline from files on disk.
set -e
cd "$(dirname "$0")/.."
python3 - <<'PY'
import sys
sys.path.insert(0, "tools")
import vlib
import glob, os
for src in sorted(glob.glob("tools/gentables*.cpp")):
    b = os.path.basename(src)
    name = "Tables" if b == "gentables.cpp" else "Tables_" + b[len("gentables_"):-4]
    ok, changed, msg = vlib.gen_tables(name, b)
    print("tables:", ok, msg)
    if not ok:
        sys.exit(1)
ok, log = vlib.coq_make(["all"], timeout=7200)
print(log[-3000:])
if not ok:
    # a broken proof file is reported by the check of its property (proof obligations are part of
    # every run); setup only insists on the extracted models, which every check needs
    ex = sorted("Extract_" + os.path.basename(f)[:-3] + ".vo" for f in glob.glob("ocaml/*.ml") if not f.endswith("util.ml"))
    ok2, log2 = vlib.coq_make(ex, timeout=3600)
    print("setup: 'make all' had failures; extraction targets:", "ok" if ok2 else "FAILED")
    if not ok2:
        print(log2[-3000:])
        sys.exit(1)
for f in sorted(glob.glob("ocaml/*.ml")):
    comp = os.path.basename(f)[:-3]
    if comp == "util":
        continue
    exe, msg = vlib.build_ocaml(comp)
    print("ocaml:", comp, exe, msg)
    if exe is None:
        sys.exit(1)
PY
echo "setup done"
