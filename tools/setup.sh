#!/bin/bash
# setup_cmd: build the framework offline from files on disk.
set -e
cd "$(dirname "$0")/.."
python3 - <<'PY'
import sys
sys.path.insert(0, "tools")
import vlib
ok, changed, msg = vlib.gen_tables()
print("tables:", ok, msg)
if not ok:
    sys.exit(1)
ok, log = vlib.coq_make(["all"], timeout=7200)
print(log[-3000:])
if not ok:
    sys.exit(1)
exe, msg = vlib.build_ocaml()
print("ocaml:", exe, msg)
if exe is None:
    sys.exit(1)
PY
echo "setup done"
