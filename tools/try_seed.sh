#!/bin/bash
# try_seed.sh <seed-id> <prop>...   isolated run of checks against a stored seed
ID=$1; shift
W=/tmp/trys_$ID; CQ=/var/tmp/coq_trys_$ID
git -C /repo worktree add --detach $W HEAD -q; git -C $W apply /verif/seeded/$ID/patch.diff || exit 3
rm -rf $CQ $CQ.ev; cp -a /verif/coq $CQ
for P in "$@"; do
  VERIF_COQ_DIR=$CQ VERIF_EVIDENCE_DIR=$CQ.ev VERIF_REPO=$W python3 /verif/tools/check.py $P 2>&1 | grep -E 'VIOLATION|\[verif\] '$P' quick' | cut -c1-160 | sed "s/^/[$ID] /"
  for f in $CQ.ev/replays/${P}_quick_1.json; do test -f $f && python3 -c "
import json;d=json.load(open('$f'));print('   replay:',{k:str(v)[:160] for k,v in d.items() if k in ('template','text','case','oracle','broken','observed_impl','sanitizer','numeral','what')})"; done
done
git -C /repo worktree remove --force $W; rm -rf $CQ $CQ.ev
