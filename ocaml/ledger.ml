(* ---- component ledger (C16): Array<Node> with nested Array<Node> ---- *)
(* case: "<ops> <impl trace>"   ops := op;op;...   paths are dot separated model locations (0 = a, 0.i.0 = a[i].kids)
     P/<d>/<id>/<grow>  d += Node{id}        M/<d>/<s>  d = Move(s)      C/<d>/<s>  d = s
     A/<d>/<s>/<grow>   d += s               B/<d>/<s>/<grow>  d += Move(s)
   -> "<model trace> <verdict>": the model trace is the contents after every step according to the ownership
   model (ERR:<n> when the model reports a use after release at step n); after the last step the pool is
   destroyed in the model and LEAK is reported when a block stays live.  The verdict judges the implementation's
   trace with the value-semantics specification (nested vectors). *)
let path_of s = List.map (fun t -> nat_of_int (int_of_string t)) (String.split_on_char '.' s)
let op_of s =
  match String.split_on_char '/' s with
  | ["P"; d; id; g] -> Some (NPush (path_of d, nat_of_int (int_of_string id), g = "1"))
  | ["M"; d; s] -> Some (NMoveAssign (path_of d, path_of s))
  | ["C"; d; s] -> Some (NCopyAssign (path_of d, path_of s))
  | ["A"; d; s; g] -> Some (NAppendCopy (path_of d, path_of s, g = "1"))
  | ["B"; d; s; g] -> Some (NAppendMove (path_of d, path_of s, g = "1"))
  | _ -> None
let fmt_toks l =
  String.concat "" (List.map (fun t -> match t with TOpen -> "[" | TClose -> "]" | TId n -> string_of_int (int_of_nat n)) l)
let fmt_trace tr = match tr with [] -> "-" | _ -> String.concat ";" (List.map fmt_toks tr)
let comp_ledger line =
  match tokens line with
  | [ops; impl] ->
    let os = List.map op_of (List.filter (fun t -> t <> "") (String.split_on_char ';' ops)) in
    if List.mem None os then "BADCASE" else
    let os = List.map (fun o -> match o with Some x -> x | None -> assert false) os in
    let spec = fmt_trace (strace os []) in
    let model =
      (match ntrace os nstate0 with
       | Ok tr ->
         (match nrun os nstate0 with
          | Ok st -> (match destroy_all_values st with
                      | Ok st' -> (match live_ids (fst st') with [] -> fmt_trace tr | _ -> "LEAK")
                      | Error _ -> "ERR:destroy")
          | Error _ -> "ERR:run")
       | Error _ -> "ERR:uaf") in
    model ^ " " ^ fmt_bool (impl = spec)
  | _ -> "BADCASE"

let () = main_loop comp_ledger
