(* htab: C13 glue.
   "H <units> <impl_hash>"            -> "<model_hash> <c13_hash_ok impl_hash>"
   "T <inst> <keys> <ops> <impl>"     -> "<model trace> <oracle verdict on impl trace>"
   formats: see cpp/drv_htab.cpp *)
let split c s = String.split_on_char c s
let nat_of_string s = nat_of_int (int_of_string s)

let parse_keys (s : string) : n list list = List.map parse_list (split '/' s)

let parse_op (keys : n list array) (s : string) : cop =
  let a = Array.of_list (split ':' s) in
  let num i = if i < Array.length a then int_of_string a.(i) else 0 in
  let key i = keys.(num i) in
  let v i = n_of_string a.(i) in
  match a.(0) with
  | "I" -> OInsert (key 1, v 2)
  | "G" | "O" -> OGet (key 1, v 2)
  | "J" -> OTryInsert (key 1)
  | "R" ->
    (* variant 2 = Remove of a NUL-terminated C string: the key up to its first NUL *)
    if num 2 = 2 then
      let rec cut l = match l with [] -> [] | x :: r -> (match x with N0 -> [] | _ -> x :: cut r) in
      ORemove (cut (key 1))
    else ORemove (key 1)
  | "Q" -> OReset   (* h = an empty table, by copy or by move: the table is detached and empty *)
  | "W" -> OReserve (nat_of_int (num 1))   (* h = Table(n): Reserve(n) of a table resets it and allocates for n *)
  | "X" -> ORemoveIndex (nat_of_int (num 1))
  | "Y" -> ORemoveAt (key 1)
  | "N" -> ORename (key 1, key 2)
  | "Z" -> OResize (nat_of_int (num 1))
  | "E" -> OExpect (nat_of_int (num 1))
  | "C" -> OCompress
  | "L" -> OClear
  | "T" -> OReset
  | "V" -> OReserve (nat_of_int (num 1))
  | "S" -> OSort (num 1 <> 0)
  | "P" -> OCopy
  | "M" -> OMove
  | "U" ->
    let ins = if Array.length a > 2 && a.(2) <> "_" then
        let l = Array.of_list (split '.' a.(2)) in
        let rec go i = if i + 1 < Array.length l then (keys.(int_of_string l.(i)), n_of_string l.(i + 1)) :: go (i + 2) else [] in
        go 0
      else [] in
    let rm = if Array.length a > 3 && a.(3) <> "_" then List.map (fun x -> keys.(int_of_string x)) (split '.' a.(3)) else [] in
    OMerge (ins, rm)
  | _ -> failwith "badop"

let fmt_obs (o : n list list) : string = String.concat "|" (List.map fmt_list o)
let fmt_trace (t : n list list option list) : string =
  match t with
  | [] -> "-"
  | _ -> String.concat ";" (List.map (fun o -> match o with Some o -> fmt_obs o | None -> "FUEL") t)
let parse_obs (s : string) : n list list = List.map parse_list (split '|' s)
let parse_trace (s : string) : n list list list option =
  if s = "-" then Some [] else
  try Some (List.map parse_obs (split ';' s)) with _ -> None

let comp_htab line =
  match tokens line with
  | ["H"; u; out] ->
    let m = c13_hash (parse_list u) in
    let verdict = (try c13_hash_ok (n_of_string out) with _ -> false) in
    string_of_n m ^ " " ^ fmt_bool verdict
  | ["T"; _inst; ks; ops; out] ->
    (try
      let keys = parse_keys ks in
      let ka = Array.of_list keys in
      let ol = if ops = "-" then [] else List.map (parse_op ka) (split ';' ops) in
      let m = c13_model_trace keys ol empty_ht ([], true) in
      let verdict =
        (match (try parse_trace out with _ -> None) with
         | Some tr -> (try c13_oracle keys ol ([], true) tr with _ -> false)
         | None -> false) in
      fmt_trace m ^ " " ^ fmt_bool verdict
    with _ -> "BADCASE")
  | _ -> "BADCASE"

let () = main_loop comp_htab
