(* ---- component cmp (C15) ----
   line = <case tokens> <impl_out>   ->   "<model_out> <oracle verdict on impl_out>"

   S w a b            six results  < <= > >= == !=  of String OP String, StringView OP StringView, String OP (const Char_T * ),
                      StringView OP (const Char_T * ) -- the C string is b cut at its first NUL:   xxxxxx/xxxxxx/xxxxxx/xxxxxx
   I w a b            HAItem_T and HLItem_T with keys a, b:  < > <= >= ==                          xxxxx/xxxxx
   T w a b c          the six String results for (a,b), (b,c), (a,c):          xxxxxx/xxxxxx/xxxxxx
   V w va vb          Value  < > <= >= ==                                      xxxxx
   N dir list         Array<SizeT64>::Sort               -> list
   L dir list         <loop value="v" sort=...> on an array of numbers -> list
   R dir w strs       Array<String>::Sort                -> strs
   J dir w vals       Value(array)::Sort                 -> vals (pointers followed, -0 printed as +0)
   H dir w via ops queries   HArray / Value object: ops, Sort, lookups -> pre|post|looked
   dir: 1 ascending, 0 descending *)

let split_on c s = String.split_on_char c s
let parse_strs s = if s = "~" then [] else List.map parse_list (split_on ';' s)
let fmt_strs l = match l with [] -> "~" | _ -> String.concat ";" (List.map fmt_list l)
let bits_of_string s = List.init (String.length s) (fun i -> s.[i] = '1')
let string_of_bits l = String.concat "" (List.map fmt_bool l)
let rec take k l = if k = 0 then [] else match l with [] -> [] | x :: r -> x :: take (k - 1) r
let rec drop k l = if k = 0 then l else match l with [] -> [] | _ :: r -> drop (k - 1) r

let rec parse_value (s : string) : value =
  let rest () = String.sub s 1 (String.length s - 1) in
  match s.[0] with
  | 'u' -> VUndef | 'n' -> VNull | 't' -> VTrue | 'f' -> VFalse
  | 'U' -> VUInt (n_of_string (rest ()))
  | 'I' -> VInt (z_of_string (rest ()))
  | 'D' -> VDbl (n_of_string (rest ()))
  | 'S' -> VStr (parse_list (rest ()))
  | 'A' -> VArr (n_of_string (rest ()))
  | 'O' -> VObj (n_of_string (rest ()))
  | 'P' -> VPtr (parse_value (rest ()))
  | _ -> failwith "value"
let rec fmt_value (v : value) : string =
  match v with
  | VUndef -> "u" | VNull -> "n" | VTrue -> "t" | VFalse -> "f"
  | VUInt x -> "U" ^ string_of_n x
  | VInt x -> "I" ^ string_of_z x
  | VDbl x -> "D" ^ string_of_n x
  | VStr x -> "S" ^ fmt_list x
  | VArr x -> "A" ^ string_of_n x
  | VObj x -> "O" ^ string_of_n x
  | VPtr p -> "P" ^ fmt_value p
let parse_vals s = if s = "~" then [] else List.map parse_value (split_on ';' s)
let fmt_vals l = match l with [] -> "~" | _ -> String.concat ";" (List.map fmt_value l)

(* k=v | k!   (operations)      k=v | #   (raw slots) *)
let parse_kv (t : string) : n list * n option =
  if t = "#" then ([], None)
  else if t.[String.length t - 1] = '!' then (parse_list (String.sub t 0 (String.length t - 1)), None)
  else match split_on '=' t with
    | [k; v] -> (parse_list k, Some (n_of_string v))
    | _ -> failwith "kv"
let parse_kvs s = if s = "~" then [] else List.map parse_kv (split_on ';' s)
let parse_entries s =
  List.map (fun (k, v) -> match v with Some x -> (k, x) | None -> failwith "entry") (parse_kvs s)
let fmt_entries l =
  match l with [] -> "~" | _ -> String.concat ";" (List.map (fun (k, v) -> fmt_list k ^ "=" ^ string_of_n v) l)
let parse_looked s =
  if s = "~" then [] else List.map (fun t -> if t = "x" then None else Some (n_of_string t)) (split_on ';' s)
let fmt_looked l =
  match l with [] -> "~" | _ -> String.concat ";" (List.map (fun o -> match o with None -> "x" | Some v -> string_of_n v) l)
let rec assoc_get k l = match l with [] -> None | (k', v) :: r -> if k = k' then Some v else assoc_get k r

let guard f = try f () with _ -> None

let comp_cmp line =
  let dirb d = (d = "1") in
  match tokens line with
  | ["S"; w; a; b; out] ->
    let w = n_of_string w and a = parse_list a and b = parse_list b in
    (* groups 1, 2: object right-hand side; groups 3, 4: (const Char_T * ) right-hand side = b cut at its first NUL *)
    let bs o = (match o with Some g -> string_of_bits g | None -> "OOB") in
    let so = bs (str_ops w a b) and co = bs (cstr_ops w a b) in
    let m = so ^ "/" ^ so ^ "/" ^ co ^ "/" ^ co in
    let verdict = (match split_on '/' out with
        | [g1; g2; g3; g4] when List.for_all (fun g -> String.length g = 6) [g1; g2; g3; g4] ->
          str_pair_oracle w a b (bits_of_string g1) && str_pair_oracle w a b (bits_of_string g2)
          && cstr_pair_oracle w a b (bits_of_string g3) && cstr_pair_oracle w a b (bits_of_string g4)
        | _ -> false) in
    m ^ " " ^ fmt_bool verdict
  | ["I"; w; a; b; out] ->
    let w = n_of_string w and a = parse_list a and b = parse_list b in
    let io = (match item_ops w a b with Some g -> string_of_bits g | None -> "OOB") in
    let m = io ^ "/" ^ io in
    let verdict = (match split_on '/' out with
        | [g1; g2] when String.length g1 = 5 && String.length g2 = 5 ->
          item_pair_oracle w a b (bits_of_string g1) && item_pair_oracle w a b (bits_of_string g2)
        | _ -> false) in
    m ^ " " ^ fmt_bool verdict
  | ["T"; w; a; b; c; out] ->
    let w = n_of_string w and a = parse_list a and b = parse_list b and c = parse_list c in
    let one x y = (match str_ops w x y with Some g -> string_of_bits g | None -> "OOB") in
    let m = one a b ^ "/" ^ one b c ^ "/" ^ one a c in
    let verdict = (match split_on '/' out with
        | [g1; g2; g3] when String.length g1 = 6 && String.length g2 = 6 && String.length g3 = 6 ->
          str_pair_oracle w a b (bits_of_string g1) && str_pair_oracle w b c (bits_of_string g2)
          && str_pair_oracle w a c (bits_of_string g3)
          (* transitivity read off the implementation's own answers: <, <=, >, >= *)
          && List.for_all (fun i -> not (g1.[i] = '1' && g2.[i] = '1') || g3.[i] = '1') [0; 1; 2; 3]
        | _ -> false) in
    m ^ " " ^ fmt_bool verdict
  | ["V"; w; a; b; out] ->
    let w = n_of_string w and a = parse_value a and b = parse_value b in
    let m = string_of_bits (v_ops w a b) in
    let verdict = String.length out = 5 && val_pair_oracle w a b (bits_of_string out) in
    m ^ " " ^ fmt_bool verdict
  | [("N" | "L"); d; l; out] ->
    let l = parse_list l in
    let m = (match sort_n (dirb d) l with Some r -> fmt_list r | None -> "FUEL") in
    let verdict = (match guard (fun () -> Some (parse_list out)) with
        | Some o -> n_sort_oracle (dirb d) l o | None -> false) in
    m ^ " " ^ fmt_bool verdict
  | ["R"; d; w; l; out] ->
    let w = n_of_string w and l = parse_strs l in
    let m = (match sort_str w (dirb d) l with Some r -> fmt_strs r | None -> "FUEL") in
    let verdict = (match guard (fun () -> Some (parse_strs out)) with
        | Some o -> str_sort_oracle w (dirb d) l o | None -> false) in
    m ^ " " ^ fmt_bool verdict
  | ["J"; d; w; l; out] ->
    let w = n_of_string w and l = parse_vals l in
    let m = (match sort_val w (dirb d) l with Some r -> fmt_vals (List.map v_norm r) | None -> "FUEL") in
    let verdict = (match guard (fun () -> Some (parse_vals out)) with
        | Some o -> val_sort_oracle w (dirb d) l o | None -> false) in
    m ^ " " ^ fmt_bool verdict
  | ["H"; d; w; _via; ops; queries; out] ->
    let w = n_of_string w and ops = parse_kvs ops and queries = parse_strs queries in
    (match split_on '|' out with
     | [pre; post; looked] ->
       let m = (match guard (fun () -> Some (parse_kvs pre)) with
           | None -> "BADPRE"
           | Some slots ->
             (match sort_items w (dirb d) slots with
              | None -> "FUEL"
              | Some r ->
                let lv = live_items r in
                pre ^ "|" ^ fmt_entries lv ^ "|" ^ fmt_looked (List.map (fun q -> assoc_get q lv) queries))) in
       let verdict = (match guard (fun () -> Some (parse_entries post, parse_looked looked)) with
           | Some (p, lk) -> harray_sort_oracle w (dirb d) ops queries p lk
           | None -> false) in
       m ^ " " ^ fmt_bool verdict
     | _ -> "BADOUT 0")
  | _ -> "BADCASE 0"

let () = main_loop comp_cmp
