(* tfull.ml -- glue for the C02-on-the-faithful-models checks (component tparse).
   case: "<auto> <w> <ast tokens> <value tokens>"  ->  "<wf><roundtrip><render> 1"
     wf        1 iff wf_template ast
     roundtrip 1 iff parse_model w (print_nodes ast) = Ok (tree_of_full ast)
     render    1 iff render_all_jv auto w (print_nodes ast) value = ROk (expand auto w value ast)
   AST / value tokens as in ocaml/tmpl.ml. *)
let units (s : string) : n list =
  if s = "_" then [] else List.map n_of_string (String.split_on_char '.' s)

exception Bad of string

let parse_value (tk : string array) (pos : int ref) : jv =
  let next () = let t = tk.(!pos) in incr pos; t in
  let rec value () =
    match next () with
    | "U" -> JUndef | "Z" -> JNull | "T" -> JTrue | "F" -> JFalse
    | "N" -> JNat (n_of_string (next ()))
    | "I" -> JInt (z_of_string (next ()))
    | "R" -> jv_of_numeral (units (next ()))   (* the JSON numeral; Digit::StringToNumber (model) decides kind and bits *)
    | "S" -> JStr (units (next ()))
    | "A" -> let c = int_of_string (next ()) in JArr (List.init c (fun _ -> value ()))
    | "O" -> let c = int_of_string (next ()) in
      JObj (List.init c (fun _ -> let k = units (next ()) in let v = value () in (k, v)))
    | t -> raise (Bad ("value token " ^ t))
  in value ()

let parse_ast (tk : string array) (pos : int ref) : tnode list =
  let next () = let t = tk.(!pos) in incr pos; t in
  let path () =
    let nm = units (next ()) in
    let c = int_of_string (next ()) in
    (nm, List.init c (fun _ -> units (next ()))) in
  let rec expr () =
    match next () with
    | "n" -> ENum (n_of_string (next ()))
    | "x" -> EVar (path ())
    | "b" -> let op = n_of_string (next ()) in let a = expr () in let b = expr () in EBin (op, a, b)
    | t -> raise (Bad ("expr token " ^ t)) in
  let rec node () =
    match next () with
    | "t" -> TText (units (next ()))
    | "v" -> TVar (path ())
    | "r" -> TRaw (path ())
    | "m" -> TMath (expr ())
    | "s" -> let p = path () in TSVar (p, nodes ())
    | "i" -> let c = expr () in let t = nodes () in
      let f = (match next () with "1" -> Some (nodes ()) | _ -> None) in TIIf (c, t, f)
    | "f" -> let c = expr () in let body = nodes () in
      let cm = int_of_string (next ()) in
      let more = List.init cm (fun _ ->
        let e = (match next () with "1" -> Some (expr ()) | _ -> None) in
        let b = nodes () in (e, b)) in
      TIf (c, body, more)
    | "l" -> let set = (match next () with "1" -> Some (path ()) | _ -> None) in
      let v = units (next ()) in let g = units (next ()) in let so = n_of_string (next ()) in
      let body = nodes () in TLoop (set, v, g, so, body)
    | t -> raise (Bad ("node token " ^ t))
  and nodes () = let c = int_of_string (next ()) in List.init c (fun _ -> node ())
  in nodes ()

let sn (x : nat) = string_of_int (int_of_nat x)
let sN (x : n) = string_of_n x

let dump_var (v : vtag) = sn v.v_off ^ "," ^ sN v.v_len ^ "," ^ sN v.v_idlen ^ "," ^ sN v.v_level

let rec dump_exprs (l : qexpr list) : string =
  "{" ^ String.concat ";" (List.map dump_expr l) ^ "}"
and dump_expr (e : qexpr) : string =
  match e with
  | QNum (op, kind, bits) -> "n(" ^ sN op ^ "," ^ sN kind ^ "," ^ sN bits ^ ")"
  | QText (op, off, len) -> "t(" ^ sN op ^ "," ^ sn off ^ "," ^ sn len ^ ")"
  | QVar (op, v) -> "v(" ^ sN op ^ "," ^ dump_var v ^ ")"
  | QSub (op, l) -> "s(" ^ sN op ^ "," ^ dump_exprs l ^ ")"

let rec dump_tags (l : tag list) : string =
  "[" ^ String.concat ";" (List.map dump_tag l) ^ "]"
and dump_tag (t : tag) : string =
  match t with
  | PVar v -> "V(" ^ dump_var v ^ ")"
  | PRaw v -> "R(" ^ dump_var v ^ ")"
  | PMath (o, e, ex) -> "M(" ^ sn o ^ "," ^ sn e ^ "," ^ dump_exprs ex ^ ")"
  | PSVar (o, e, v, subs) -> "S(" ^ sn o ^ "," ^ sn e ^ "," ^ dump_var v ^ "," ^ dump_tags subs ^ ")"
  | PIIf (i, c, subs) ->
    "I(" ^ sn i.i_off ^ "," ^ sN i.i_len ^ "," ^ sN i.i_toff ^ "," ^ sN i.i_tlen ^ "," ^ sN i.i_foff ^ "," ^ sN i.i_flen ^ ","
    ^ sN i.i_tid ^ "," ^ sN i.i_fid ^ "," ^ dump_exprs c ^ "," ^ dump_tags subs ^ ")"
  | PLoop (l, subs) ->
    "L(" ^ sn l.l_off ^ "," ^ sn l.l_end ^ "," ^ sN l.l_coff ^ "," ^ sN l.l_voff ^ "," ^ sN l.l_vlen ^ "," ^ sN l.l_goff ^ ","
    ^ sN l.l_glen ^ "," ^ sN l.l_opts ^ "," ^ sN l.l_level ^ "," ^ dump_var l.l_set ^ "," ^ dump_tags subs ^ ")"
  | PIf (o, e, cases) ->
    "F(" ^ sn o ^ "," ^ sn e ^ ",[" ^ String.concat ";" (List.map dump_case cases) ^ "])"
and dump_case (c : ifcase) : string =
  match c with
  | PCase (o, e, ex, subs) -> "C(" ^ sn o ^ "," ^ sn e ^ "," ^ dump_exprs ex ^ "," ^ dump_tags subs ^ ")"

let dump_err (e : perr) : string =
  match e with
  | EOob0 s -> "ERR:oob:" ^ sN s
  | EEmpty s -> "ERR:empty:" ^ sN s
  | EKind s -> "ERR:kind:" ^ sN s
  | ENeg s -> "ERR:neg:" ^ sN s
  | EFuel0 -> "ERR:fuel:0"


let comp_tfull line =
  try
    match tokens line with
    | a :: w :: ast :: v :: _ ->
      let ast = parse_ast (Array.of_list (String.split_on_char '|' ast)) (ref 0) in
      let v = parse_value (Array.of_list (String.split_on_char '|' v)) (ref 0) in
      let au = auto_of (n_of_string a) and ww = n_of_string w in
      let text = print_nodes ast in
      let wf = wf_template ast in
      let rt = (match parse_model ww text with Ok0 l -> dump_tags l = dump_tags (tree_of_full ast) | Error _ -> false) in
      let rn = (match render_all_jv au ww text v with ROk o -> list_eqb o (expand au ww v ast) | RError _ -> false) in
      fmt_bool wf ^ fmt_bool rt ^ fmt_bool rn ^ " 1"
    | _ -> "BADCASE"
  with Bad s -> "BADCASE:" ^ s | Invalid_argument s -> "BADCASE:" ^ s | Failure s -> "BADCASE:" ^ s

let () = main_loop comp_tfull
