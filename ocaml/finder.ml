(* finder.ml -- glue for the Finder model (C01).
   case: "<w> <units> <impl_out>"  ->  "<model scan> <verdict>"
   verdict (oracle): the implementation's match list equals the structural
   specification scan (next_spec iterated), for width 0; other widths share the words. *)
let rec spec_scan (s : n list) (off : int) (fuel : int) : int list =
  if fuel = 0 then [] else
  let rec drop k l = if k = 0 then l else (match l with [] -> [] | _ :: r -> drop (k - 1) r) in
  let (m, o) = next_spec_c8 s (nat_of_int off) in
  let mi = int_of_n m and oi = int_of_nat o in
  if mi = 0 then [] else mi :: oi :: spec_scan (drop (oi - off) s) oi (fuel - 1)

let comp_finder line =
  match tokens line with
  | [w; s; out] ->
    let s = parse_list s in
    let len = List.length s in
    let m = scan_all (nat_of_int (len + 1)) (n_of_string w) s (nat_of_int 0) in
    let flat = List.concat (List.map (fun (a, b) -> [a; n_of_int (int_of_nat b)]) m) in
    let spec = List.map n_of_int (spec_scan s 0 (len + 1)) in
    let verdict = if out = "CRASH" then false else (fmt_list spec = out) in
    fmt_list flat ^ " " ^ fmt_bool verdict
  | _ -> "BADCASE"

let () = main_loop comp_finder
