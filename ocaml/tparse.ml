(* tparse.ml -- glue for the template parser model (component tparse, C01/C02).
   case: "<w> <template units>"  ->  "<model tree> <verdict>"
   The model tree is printed in the canonical form of cpp/drv_tparse.cpp
   (ERR:<class>:<site> when the model reports an error).  verdict (the
   specification, TparseModel.tree_okb): the tree obeys the offset discipline
   the renderer relies on; 0 also when the model reports an error.  The
   comparison with the implementation's tree is done by tools/props/tparse.py. *)
let sn (x : nat) = string_of_int (int_of_nat x)
let sN (x : n) = string_of_n x

let dump_var (v : vtag) = sn v.v_off ^ "," ^ sN v.v_len ^ "," ^ sN v.v_idlen ^ "," ^ sN v.v_level

let rec dump_exprs (l : qexpr list) : string =
  "{" ^ String.concat ";" (List.map dump_expr l) ^ "}"
and dump_expr (e : qexpr) : string =
  match e with
  | QNum (op, kind, bits) -> "n(" ^ sN op ^ "," ^ sN kind ^ "," ^ sN bits ^ ")"
  | QText (op, off, len) -> "t(" ^ sN op ^ "," ^ sn off ^ "," ^ sn len ^ ")"
  | QVar (op, v) -> "v(" ^ sN op ^ "," ^ dump_var v ^ ")"
  | QSub (op, l) -> "s(" ^ sN op ^ "," ^ dump_exprs l ^ ")"

let rec dump_tags (l : tag list) : string =
  "[" ^ String.concat ";" (List.map dump_tag l) ^ "]"
and dump_tag (t : tag) : string =
  match t with
  | PVar v -> "V(" ^ dump_var v ^ ")"
  | PRaw v -> "R(" ^ dump_var v ^ ")"
  | PMath (o, e, ex) -> "M(" ^ sn o ^ "," ^ sn e ^ "," ^ dump_exprs ex ^ ")"
  | PSVar (o, e, v, subs) -> "S(" ^ sn o ^ "," ^ sn e ^ "," ^ dump_var v ^ "," ^ dump_tags subs ^ ")"
  | PIIf (i, c, subs) ->
    "I(" ^ sn i.i_off ^ "," ^ sN i.i_len ^ "," ^ sN i.i_toff ^ "," ^ sN i.i_tlen ^ "," ^ sN i.i_foff ^ "," ^ sN i.i_flen ^ ","
    ^ sN i.i_tid ^ "," ^ sN i.i_fid ^ "," ^ dump_exprs c ^ "," ^ dump_tags subs ^ ")"
  | PLoop (l, subs) ->
    "L(" ^ sn l.l_off ^ "," ^ sn l.l_end ^ "," ^ sN l.l_coff ^ "," ^ sN l.l_voff ^ "," ^ sN l.l_vlen ^ "," ^ sN l.l_goff ^ ","
    ^ sN l.l_glen ^ "," ^ sN l.l_opts ^ "," ^ sN l.l_level ^ "," ^ dump_var l.l_set ^ "," ^ dump_tags subs ^ ")"
  | PIf (o, e, cases) ->
    "F(" ^ sn o ^ "," ^ sn e ^ ",[" ^ String.concat ";" (List.map dump_case cases) ^ "])"
and dump_case (c : ifcase) : string =
  match c with
  | PCase (o, e, ex, subs) -> "C(" ^ sn o ^ "," ^ sn e ^ "," ^ dump_exprs ex ^ "," ^ dump_tags subs ^ ")"

let dump_err (e : perr) : string =
  match e with
  | EOob0 s -> "ERR:oob:" ^ sN s
  | EEmpty s -> "ERR:empty:" ^ sN s
  | EKind s -> "ERR:kind:" ^ sN s
  | ENeg s -> "ERR:neg:" ^ sN s
  | EFuel0 -> "ERR:fuel:0"

let comp_tparse line =
  match tokens line with
  | w :: s :: rest ->
    let c = parse_list s in
    (match parse_model (n_of_string w) c with
     | Ok0 l -> dump_tags l ^ " " ^ fmt_bool (tree_okb (nat_of_int (List.length c)) l)
     | Error e -> dump_err e ^ " 0")
  | _ -> "BADCASE"

let () = main_loop comp_tparse
