(* ledgervalue: C16 tie of coq/LedgerValueModel.v.
   line:  "<n> <op;op;...>"   (n variables; paths dot separated; the flags are already filled in, see tools/props/ledgervalue.py)
     S:t  T:t:len  Q:t:n  I:t:key:grow  A:t:grow  V:d:s:mv:grow  G:d:s:mv  M:d:s:mv:grow  R:t:k  C:t:re  Z:t
   output: after EVERY operation "<owned ids>,<object storage>,<key blocks>,<array blocks>,<string blocks>" ("E" once the
   model reports Error UAF; the rest is not run), joined by ';', then "|<ids live after destroying every variable>". *)
let split c s = String.split_on_char c s
let nat s = nat_of_int (int_of_string s)
let bool s = (s <> "0")
let path s = List.map nat (split '.' s)

let parse_op (s : string) : vop =
  let a = Array.of_list (split ':' s) in
  let f i = a.(i) in
  match f 0 with
  | "S" -> OSetScalar (path (f 1))
  | "T" -> OSetStr (path (f 1), nat (f 2))
  | "Q" -> OSetPtr (path (f 1), nat (f 2))
  | "I" -> OInsert (path (f 1), nat (f 2), bool (f 3))
  | "A" -> OAppend (path (f 1), bool (f 2))
  | "V" -> OAppendVal (path (f 1), path (f 2), bool (f 3), bool (f 4))
  | "G" -> OAssign (path (f 1), path (f 2), bool (f 3))
  | "M" -> OMerge (path (f 1), path (f 2), bool (f 3), bool (f 4))
  | "R" -> ORemove (path (f 1), nat (f 2))
  | "C" -> OCompress (path (f 1), bool (f 2))
  | "Z" -> OReset (path (f 1))
  | _ -> failwith "badop"

let comp_ledgervalue line =
  match tokens line with
  | [n; ops] ->
    (try
      let ol = if ops = "-" then [] else List.map parse_op (split ';' ops) in
      let st = ref (vstate0 (nat n)) in
      let dead = ref false in
      let outs = List.map (fun o ->
          if !dead then "E" else
          match vstep_obs !st o with
          | Some (st', ((((t, b), k), a), s)) ->
            st := st';
            Printf.sprintf "%d,%d,%d,%d,%d" (int_of_nat t) (int_of_nat b) (int_of_nat k) (int_of_nat a) (int_of_nat s)
          | None -> dead := true; "E") ol in
      let fin = if !dead then "E" else (match vfinal_live !st with Some x -> string_of_int (int_of_nat x) | None -> "E") in
      (match outs with [] -> "-" | _ -> String.concat ";" outs) ^ "|" ^ fin
    with _ -> "BADCASE")
  | _ -> "BADCASE"

let () = main_loop comp_ledgervalue
