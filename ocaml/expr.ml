(* ---- component expr (C04) ----
   case line: "<expr units> <env> <tree> <impl token>"  ->  "<model token> <oracle verdict on impl>"
   token:  <eval>|<math>|<inline-if>|<if-block>   (see cpp/drv_expr.cpp)
   The verdict is computed from the SPECIFICATION evaluator (spec_eval on the
   generated tree, exact integers / exact rationals), never from the model. *)

let split_on c s = String.split_on_char c s

let units_of_string (s : string) : n list =
  List.init (String.length s) (fun i -> n_of_int (Char.code s.[i]))

let parse_env (tok : string) : env =
  if tok = "-" then [] else
    List.filter_map (fun ent ->
        match split_on ':' ent with
        | name :: kind :: rest ->
          let nm = units_of_string name in
          let payload = match rest with p :: _ -> p | [] -> "" in
          let v = match kind with
            | "n" -> EvNat (n_of_string payload)
            | "i" -> EvInt (Z.to_N (let z = z_of_string payload in
                                    match z with Zneg _ -> Z.add z (Z.of_N (n_of_string "18446744073709551616")) | _ -> z))
            | "r" -> (match split_on '_' payload with
                | [m; e] -> EvReal (sf_of_me (z_of_string m) (z_of_string e))
                | _ -> EvOther)
            | "s" -> EvStr (if payload = "-" then [] else List.map n_of_string (split_on '.' payload))
            | "t" -> EvTrue | "f" -> EvFalse | "z" -> EvNull
            | _ -> EvOther in
          Some (nm, v)
        | _ -> None) (split_on ';' tok)

(* the generator names operators by a pinned id (1 = ||, 2 = &&, 3 = ==, 4 = !=, 5 = >=, 6 = <=, 7 = >,
   8 = <, 9 = |, 10 = &, 11 = +, 12 = -, 13 = *, 14 = /, 15 = %, 16 = ^); the oracle reads them by
   MEANING through the current tables, so that renumbering the enum cannot confuse the verdict *)
let op_of_id (i : int) : n =
  match i with
  | 1 -> op_Or | 2 -> op_And | 3 -> op_Equal | 4 -> op_NotEqual | 5 -> op_GreaterOrEqual | 6 -> op_LessOrEqual
  | 7 -> op_Greater | 8 -> op_Less | 9 -> op_BitwiseOr | 10 -> op_BitwiseAnd | 11 -> op_Addition
  | 12 -> op_Subtraction | 13 -> op_Multiplication | 14 -> op_Division | 15 -> op_Remainder | 16 -> op_Exponent
  | _ -> failwith "op id"

(* tree: prefix tokens separated by '/':  o<op> l r | p t | n<dec> | i<signed> | d<num>_<den> | t<units '.'> | v<name> *)
let parse_tree (tok : string) : stree =
  let toks = ref (split_on '/' tok) in
  let next () = match !toks with t :: r -> toks := r; t | [] -> failwith "tree" in
  let rest t = String.sub t 1 (String.length t - 1) in
  let rec go () =
    let t = next () in
    match t.[0] with
    | 'o' -> let op = op_of_id (int_of_string (rest t)) in let l = go () in let r = go () in SNode (op, l, r)
    | 'p' -> SParen (go ())
    | 'n' -> SLeaf (SLNat (n_of_string (rest t)))
    | 'i' -> SLeaf (SLInt (z_of_string (rest t)))
    | 'd' -> (match split_on '_' (rest t) with
        | [a; b] -> (match z_of_string b with Zpos d -> SLeaf (SLDec (z_of_string a, d)) | _ -> failwith "den")
        | _ -> failwith "dec")
    | 't' -> SLeaf (SLText (List.map n_of_string (split_on '.' (rest t))))
    | 'v' -> SLeaf (SLVar (units_of_string (rest t)))
    | _ -> failwith "tree token" in
  go ()

(* odd-mantissa canonical print of a binary64, as the C++ driver prints it *)
let fmt_sf (f : spec_float) : string =
  match f with
  | S754_zero s -> if s then "Rnz" else "Rz"
  | S754_infinity s -> if s then "R-inf" else "Rinf"
  | S754_nan -> "Rnan"
  | S754_finite (s, m, e) ->
    let rec strip p k = match p with XO q -> strip q (k + 1) | _ -> (p, k) in
    let (m', k) = strip m 0 in
    "R" ^ (if s then "-" else "") ^ string_of_n (Npos m') ^ "p" ^ string_of_z (Z.add e (z_of_string (string_of_int k)))

let fmt_err (e : err) : string =
  match e with
  | EFuel -> "ERR:fuel" | EShape -> "ERR:shape"
  | EUB s -> "ERR:ub" ^ string_of_n s | ETrap s -> "ERR:trap" ^ string_of_n s
  | EOOB s -> "ERR:oob" ^ string_of_n s | EUnsupported s -> "ERR:unsupported" ^ string_of_n s

let model_token (e : env) (c : n list) : string =
  match parse_top c with
  | Err x -> fmt_err x
  | NoValue -> "X|E|_|_"
  | Ok [] -> "X|E|_|_"
  | Ok _ ->
    (match parse_eval e c with
     | Err x -> fmt_err x
     | NoValue -> "F|E|_|0"
     | Ok v ->
       let truth = match q_true v with Ok true -> "1" | Ok false -> "0" | _ -> "?" in
       (match v with
        | QNat b -> let d = string_of_n b in "N" ^ d ^ "|" ^ d ^ "|" ^ truth ^ "|" ^ truth
        | QInt b -> let d = string_of_z (signed b) in "I" ^ d ^ "|" ^ d ^ "|" ^ truth ^ "|" ^ truth
        | QReal f -> fmt_sf f ^ "|=|" ^ truth ^ "|" ^ truth
        | _ -> "T"))

(* the implementation's eval part as an iresult *)
let iresult_of (s : string) : iresult option =
  if s = "F" then Some INone
  else if s = "" then None
  else match s.[0] with
    | 'N' -> Some (INat (n_of_string (String.sub s 1 (String.length s - 1))))
    | 'I' -> Some (IInt (z_of_string (String.sub s 1 (String.length s - 1))))
    | 'R' ->
      let b = String.sub s 1 (String.length s - 1) in
      if b = "z" || b = "nz" then Some (IReal (Z0, Z0))
      else if b = "inf" || b = "-inf" || b = "nan" then Some IRealSpecial
      else (match split_on 'p' b with
          | [m; e] -> Some (IReal (z_of_string m, z_of_string e))
          | _ -> None)
    | _ -> None

let verdict (e : env) (t : stree) (impl : string) : bool =
  match split_on '|' impl with
  | [ev; math; iif; bif] ->
    (match spec_eval e t with
     | SOutside _ -> true
     | SNoValue -> ev = "F" && math = "E" && iif = "_" && bif = "0"
     | SOk (v, _) ->
       (match iresult_of ev with
        | None -> false
        | Some ir ->
          c04_oracle e t ir &&
          (let truth = if spec_truth v then "1" else "0" in
           iif = truth && bif = truth &&
           (match v with
            | SVInt z -> math = string_of_z z
            | SVReal (_, _) -> math = "="
            | SVText (_, _) -> false))))
  | _ -> false

let comp_expr line =
  match tokens line with
  | [units; envt; treet; impl] ->
    (try
       (* optional prefix Q<code>: (quote character of the rendered if forms) is the driver's business *)
       let units = if String.length units > 0 && units.[0] = 'Q'
         then (let i = String.index units ':' in String.sub units (i + 1) (String.length units - i - 1)) else units in
       let c = parse_list units in
       let e = parse_env envt in
       if treet = "x" then
         (* not an expression (it ends in an operator): it must be rejected everywhere *)
         model_token e c ^ " " ^ fmt_bool (impl = "X|E|_|_")
       else
       let t = parse_tree treet in
       model_token e c ^ " " ^ fmt_bool (verdict e t impl)
     with _ -> "BADCASE 0")
  | _ -> "BADCASE 0"

let () = main_loop comp_expr
