(* ---- component bigint (C19) ----
   case lines (the implementation's output token is appended by the harness):
     S <w> <nbits> <ops> <impl>     operation history on BigInt<uint<w>, nbits>
        ops  = op;op;...  ("-" = none), fields separated by '.':
               S.ow.v  =      A.ow.v +=     B.ow.v -=     O.ow.v |=     N.ow.v &=
               P.v.i Add(v,i) Q.v.i Subtract(v,i)   M.v *=   D.v Divide   L.k <<=   R.k >>=
               F FindFirstBit   G FindLastBit   C.v comparisons   T.tw narrowing   K.ow.v copy-assign   X Clear
               E.v /=   V.ow.v x = std::move(BigInt{v}) (returns the moved-from object's code)   W move-construct
               from x and move-assign back   Y copy-construct, Clear, copy-assign back   Z self move-assign
               U.i.v.k Storage()[i] = v; SetIndex(k)
        impl = step;step;...   step = index:words:ret   (words: comma list, trailing zeros trimmed, "-" = none)
     M <t> <hw> <a> <m> <impl>      DoubleSize<uint<t>, hw>::Multiply      impl = lo,hi
     D <t> <hw> <hi> <lo> <d> <impl>   DoubleSize<uint<t>, hw>::Divide     impl = rem,quo
   output: "<model token> <oracle verdict on impl>" *)

let split c s = if s = "-" || s = "" then [] else String.split_on_char c s

let parse_op (s : string) : op =
  match String.split_on_char '.' s with
  | ["S"; ow; v] -> OSet (n_of_string ow, n_of_string v)
  | ["A"; ow; v] -> OAdd (n_of_string ow, n_of_string v)
  | ["B"; ow; v] -> OSub (n_of_string ow, n_of_string v)
  | ["O"; ow; v] -> OOr (n_of_string ow, n_of_string v)
  | ["N"; ow; v] -> OAnd (n_of_string ow, n_of_string v)
  | ["P"; v; i] -> OAddAt (n_of_string v, nat_of_int (int_of_string i))
  | ["Q"; v; i] -> OSubAt (n_of_string v, nat_of_int (int_of_string i))
  | ["M"; v] -> OMul (n_of_string v)
  | ["D"; v] -> ODiv (n_of_string v)
  | ["L"; k] -> OShl (n_of_string k)
  | ["R"; k] -> OShr (n_of_string k)
  | ["F"] -> OFfb
  | ["G"] -> OFlb
  | ["C"; v] -> OCmp (n_of_string v)
  | ["T"; tw] -> ONarrow (n_of_string tw)
  | ["K"; ow; v] -> OCopy (n_of_string ow, n_of_string v)
  | ["X"] -> OClear
  | ["E"; v] -> ODivAssign (n_of_string v)
  | ["V"; ow; v] -> OMoveAssign (n_of_string ow, n_of_string v)
  | ["W"] -> OMoveRound
  | ["Y"] -> OCopyRound
  | ["Z"] -> OSelfMove
  | ["U"; i; v; k] -> OPoke (nat_of_int (int_of_string i), n_of_string v, nat_of_int (int_of_string k))
  | _ -> failwith "bad op"

let rec trim_rev = function N0 :: t -> trim_rev t | l -> l
let trim l = List.rev (trim_rev (List.rev l))

let err_name = function OOB -> "OOB" | Fuel -> "Fuel" | DivZero -> "DivZero" | ZeroScan -> "ZeroScan" | IdxWrap -> "IdxWrap"

let fmt_step = function
  | Ok (s, r) -> string_of_int (int_of_nat s.index) ^ ":" ^ fmt_list (trim s.words) ^ ":" ^ string_of_n r
  | Error e -> "E" ^ err_name e

let parse_step (s : string) =
  match String.split_on_char ':' s with
  | [i; ws; r] -> ((nat_of_int (int_of_string i), parse_list ws), n_of_string r)
  | _ -> failwith "bad step"

let comp_bigint line =
  try
    match tokens line with
    | ["S"; w; nbits; ops; impl] ->
      let wi = int_of_string w and nb = int_of_string nbits in
      let n = (nb + wi - 1) / wi in
      let w = n_of_int wi in
      let ops = List.map parse_op (split ';' ops) in
      let m = run_ops w (zero_big (nat_of_int n)) ops in
      let mtok = match m with [] -> "-" | _ -> String.concat ";" (List.map fmt_step m) in
      let verdict =
        if String.length impl >= 5 && String.sub impl 0 5 = "CRASH" then
          (* a crash is a failure exactly when the specification still speaks on some step *)
          int_of_nat (spec_len w (nat_of_int n) N0 ops) = 0
        else
          (try oracle w (nat_of_int n) N0 ops (List.map parse_step (split ';' impl)) with _ -> false) in
      mtok ^ " " ^ fmt_bool verdict
    | ["M"; t; hw; a; m; impl] ->
      let ti = int_of_string t and hwi = int_of_string hw in
      let a = n_of_string a and m = n_of_string m in
      let (lo, hi) = if hwi = 64 then mul2_half (n_of_int (ti / 2)) a m else mul2 (n_of_int ti) a m in
      let verdict =
        (match parse_list impl with
         | [ilo; ihi] ->
           let bw = N.pow (n_of_int 2) (n_of_int ti) in
           N.ltb ilo bw && N.ltb ihi bw && N.eqb (N.add ilo (N.mul ihi bw)) (N.mul a m)
         | _ -> false) in
      fmt_list [lo; hi] ^ " " ^ fmt_bool verdict
    | ["D"; t; hw; hi; lo; d; impl] ->
      let ti = int_of_string t and hwi = int_of_string hw in
      let hi = n_of_string hi and lo = n_of_string lo and d = n_of_string d in
      let tn = n_of_int ti in
      let sh = N.sub (N.sub tn (n_of_int 1)) (N.log2 d) in
      let (r, q) = if hwi = 64 then div2_half (n_of_int (ti / 2)) hi lo d sh else div2 tn hi lo d N0 in
      let verdict =
        (match parse_list impl with
         | [ir; iq] ->
           let bw = N.pow (n_of_int 2) tn in
           let x = N.add (N.mul hi bw) lo in
           let (eq, er) = N.div_eucl x d in
           N.eqb ir er && N.eqb iq eq
         | _ -> false) in
      fmt_list [r; q] ^ " " ^ fmt_bool verdict
    | _ -> "BADCASE"
  with _ -> "BADCASE"

let () = main_loop comp_bigint
