(* value: "<mode> <history> <impl_trace>" -> "<model_trace> <oracle verdict>"
   mode 12: C12 oracle (document specification), mode 18: C18 oracle (GroupBy
   replaced by partition_by_key).  With argument "plan": "<mode> <history>" ->
   the same line with every unspecified positional operation replaced by 0.

   history: operations separated by ';', integer fields separated by ','.
     target  = var,plen,(0,len,units.. | 1,idx)*
     scalar  = 0 null | 1 true | 2 false | 3,n | 4,z | 5,q (the real q/256) | 6,len,units..  ; 7 = none
     ops     = 0 | 1,t,p,v | 2,t,k,p,v | 3,t,i,p,v | 4,t,p,v | 5,t1,t2,mv | 6,t1,t2,mv | 7,t1,k,t2
             | 8,t,k,v | 9,t,i | 10,t | 11,t | 12,t1,t2,ctor | 13,t1,t2,ctor | 14,t,id | 15,t,id
             | 16,t,n,p | 17,t | 18,t1,t2,k | 19,t,k | 20,t,kind,v | 21,t1,t2,v | 22,t1,t2,v
               (id 9 = null; k = len,units..; kind = ValueType value; v = overload variant) *)

let string_of_units (l : n list) : string =
  let b = Buffer.create 256 in
  List.iter (fun c -> Buffer.add_char b (Char.chr ((int_of_n c) land 255))) l;
  Buffer.contents b
let units_of_string (s : string) : n list =
  List.init (String.length s) (fun i -> n_of_int (Char.code s.[i]))

exception Bad
let parse_op (s : string) : op =
  let f = ref (String.split_on_char ',' s) in
  let next () = match !f with x :: r -> f := r; x | [] -> raise Bad in
  let int () = int_of_string (next ()) in
  let nat () = nat_of_int (int ()) in
  let str () = let n = int () in List.init n (fun _ -> n_of_string (next ())) in
  let target () =
    let v = nat () in
    let pl = int () in
    let p = List.init pl (fun _ -> match int () with 0 -> K (str ()) | _ -> I (nat ())) in
    (v, p) in
  let scalar_k k = match k with
    | 0 -> SNull | 1 -> STrue | 2 -> SFalse
    | 3 -> SUInt (n_of_string (next ()))
    | 4 -> SInt (z_of_string (next ()))
    | 5 -> SReal (z_of_string (next ()))
    | 6 -> SStr (str ())
    | _ -> raise Bad in
  let scalar () = scalar_k (int ()) in
  let oscalar () = match int () with 7 -> None | k -> Some (scalar_k k) in
  let bool () = int () <> 0 in
  let optid () = match int () with 9 -> None | i -> Some (nat_of_int i) in
  match int () with
  | 0 -> ONop
  | 1 -> let t = target () in let p = scalar () in OAssign (t, p)
  | 2 -> let t = target () in let k = str () in let p = oscalar () in OKeyW (t, k, p)
  | 3 -> let t = target () in let i = nat () in let p = oscalar () in OIdxW (t, i, p)
  | 4 -> let t = target () in let p = scalar () in OAppend (t, p)
  | 5 -> let t1 = target () in let t2 = target () in let m = bool () in OAppendV (t1, t2, m)
  | 6 -> let t1 = target () in let t2 = target () in let m = bool () in OMerge (t1, t2, m)
  | 7 -> let t1 = target () in let k = str () in let t2 = target () in OInsert (t1, k, t2)
  | 8 -> let t = target () in let k = str () in ORemove (t, k)
  | 9 -> let t = target () in let i = nat () in ORmIdx (t, i)
  | 10 -> OReset (target ())
  | 11 -> OCompress (target ())
  | 12 -> let t1 = target () in let t2 = target () in let c = bool () in OCopy (t1, t2, c)
  | 13 -> let t1 = target () in let t2 = target () in let c = bool () in OMove (t1, t2, c)
  | 14 -> let t = target () in let i = optid () in OSetPtr (t, i)
  | 15 -> let t = target () in let i = optid () in OAddPtr (t, i)
  | 16 -> let t = target () in let n = scalar () in let p = scalar () in OCtorApp (t, n, p)
  | 17 -> ORead (target ())
  | 18 -> let t1 = target () in let t2 = target () in let k = str () in OGroupBy (t1, t2, k)
  | 19 -> let t = target () in let k = str () in ORender (t, k)
  | 20 -> let t = target () in let k = n_of_string (next ()) in OAssignKind (t, k)
  | 21 -> let t1 = target () in let t2 = target () in OAssignCont (t1, t2)
  | 22 -> let t1 = target () in let t2 = target () in OAppendCont (t1, t2)
  | _ -> raise Bad

let parse_history (h : string) : op list =
  if h = "-" then [] else List.map parse_op (String.split_on_char ';' h)

let comp_value line =
  try
    match tokens line with
    | [mode; h; impl] ->
      let ops = parse_history h in
      let m = string_of_units (run_model ops) in
      let i = units_of_string impl in
      let verdict =
        if String.length impl >= 5 && String.sub impl 0 5 = "CRASH" then false
        else if mode = "18" then c18_oracle ops i else c12_oracle ops i in
      (if m = "" then "-" else m) ^ " " ^ fmt_bool verdict
    | _ -> "BADCASE 0"
  with _ -> "BADCASE 0"

let plan_line line =
  try
    match tokens line with
    | [mode; h] ->
      let parts = if h = "-" then [] else String.split_on_char ';' h in
      let flags = plan_model (List.map parse_op parts) in
      let rec go ps fs = match ps, fs with
        | p :: pr, f :: fr -> (if f then "0" else p) :: go pr fr
        | ps, [] -> ps
        | [], _ -> [] in
      let out = go parts flags in
      mode ^ " " ^ (if out = [] then "-" else String.concat ";" out)
    | _ -> "BADCASE"
  with _ -> "BADCASE"

let () =
  if Array.length Sys.argv > 1 && Sys.argv.(1) = "plan" then main_loop plan_line
  else main_loop comp_value
