(* htabledger: C16 tie of coq/HtabLedgerModel.v.
   line:  "<n> <op;op;...>"     (n tables; the flags g / ce are already filled in, see tools/props/htabledger.py)
     I:i:k:hv:g  G:i:k:own:g  R:i:k  X:i:n  N:i:k:k2  Z:i:n  E:i:g  C:i  L:i  T:i  V:i:n  S:i
     P:i:j:ce    M:i:j        A:i:j:g:ce              B:i:j:g               D:i
   output: after EVERY operation "<owned ids>,<storage blocks>,<key tokens>,<value tokens>" ("E" once the model
   reports Error UAF; the rest of the history is not run), joined by ';', then "|<ids live after destroying the pool>". *)
let split c s = String.split_on_char c s
let nat s = nat_of_int (int_of_string s)
let bool s = (s <> "0")

let parse_op (s : string) : lop =
  let a = Array.of_list (split ':' s) in
  let f i = a.(i) in
  match f 0 with
  | "I" -> LInsert (nat (f 1), nat (f 2), bool (f 3), bool (f 4))
  | "G" -> LGet (nat (f 1), nat (f 2), bool (f 3), bool (f 4))
  | "R" -> LRemove (nat (f 1), nat (f 2))
  | "X" -> LRemoveIndex (nat (f 1), nat (f 2))
  | "N" -> LRename (nat (f 1), nat (f 2), nat (f 3))
  | "Z" -> LResize (nat (f 1), nat (f 2))
  | "E" -> LExpect (nat (f 1), bool (f 2))
  | "C" -> LCompress (nat (f 1))
  | "L" -> LClear (nat (f 1))
  | "T" -> LReset (nat (f 1))
  | "V" -> LReserve (nat (f 1), nat (f 2))
  | "S" -> LSort (nat (f 1))
  | "P" -> LCopy (nat (f 1), nat (f 2), bool (f 3))
  | "M" -> LMove (nat (f 1), nat (f 2))
  | "A" -> LMergeCopy (nat (f 1), nat (f 2), bool (f 3), bool (f 4))
  | "B" -> LMergeMove (nat (f 1), nat (f 2), bool (f 3))
  | "D" -> LDestroy (nat (f 1))
  | _ -> failwith "badop"

let comp_htabledger line =
  match tokens line with
  | [n; ops] ->
    (try
      let ol = if ops = "-" then [] else List.map parse_op (split ';' ops) in
      let st = ref (lstate0 (nat n)) in
      let dead = ref false in
      let outs = List.map (fun o ->
          if !dead then "E" else
          match lstep_obs !st o with
          | Some (st', (((t, b), k), v)) ->
            st := st';
            Printf.sprintf "%d,%d,%d,%d" (int_of_nat t) (int_of_nat b) (int_of_nat k) (int_of_nat v)
          | None -> dead := true; "E") ol in
      let fin = if !dead then "E" else (match lfinal_live !st with Some x -> string_of_int (int_of_nat x) | None -> "E") in
      (match outs with [] -> "-" | _ -> String.concat ";" outs) ^ "|" ^ fin
    with _ -> "BADCASE")
  | _ -> "BADCASE"

let () = main_loop comp_htabledger
