(* ---- component uni (C20) ----
   case lines as in cpp/drv_uni.cpp, with the implementation's result appended:
     E <w> <cp> <impl>                           -> "<model units> <verdict>"
     J <w> <k1> <k2> <cp> <pre> <post> <impl>    -> "<model units|FAIL|FUEL> <verdict>"
     T <w> <body> <impl>                         -> "<model ...> 1"      (agreement only: outside the property)
     R E <w> <lo> <hi> <step> <blob>             -> "= 1" when every code point of the range agrees with the
     R J <w> <k1> <k2> <lo> <hi> <step> <pre> <post> <blob>   model and satisfies the oracle, else
                                                    "S<cp>:<model> 0" (oracle fails) or "M<cp>:<model> 1" (model differs)
   The verdict is the specification oracle (UniModel.c20_oracle_encode, c20_oracle_json) applied to the
   implementation's result; it is demanded for scalar values and plain neighbours only. *)

let ecase_of_int (k : int) : ecase =
  { cap_u = (k land 16 <> 0); up1 = (k land 8 <> 0); up2 = (k land 4 <> 0); up3 = (k land 2 <> 0); up4 = (k land 1 <> 0) }

let fmt_pres (p : pres) : string =
  match p with
  | PStr l -> fmt_list l
  | PFail -> "FAIL"
  | PErr _ -> "FUEL"

let is_units (s : string) : bool =
  s = "-" || (String.length s > 0 && s.[0] >= '0' && s.[0] <= '9')

let one_e (w : n) (cp : n) (impl : string) : string * bool =
  let m = fmt_list (c20_model_encode w cp) in
  let v = if scalarb cp then (is_units impl && c20_oracle_encode w cp (parse_list impl)) else true in
  (m, v)

let one_j (w : n) (k1 : ecase) (k2 : ecase) (cp : n) (pre : n list) (post : n list) (impl : string) : string * bool =
  let m = fmt_pres (c20_model_json w k1 k2 cp pre post) in
  let inside = scalarb cp && List.for_all plainb pre && List.for_all plainb post in
  let v = if inside then (is_units impl && c20_oracle_json w cp pre post (parse_list impl)) else true in
  (m, v)

let surrogate (cp : int) : bool = cp >= 0xD800 && cp <= 0xDFFF

let range (lo : int) (hi : int) (step : int) (blob : string) (f : n -> string -> string * bool) : string =
  let items = if blob = "EMPTY" then [||] else Array.of_list (String.split_on_char ';' blob) in
  let idx = ref 0 in
  let first_s = ref None and first_m = ref None in
  let cp = ref lo in
  while !cp < hi do
    if not (surrogate !cp) then begin
      let impl = if !idx < Array.length items then items.(!idx) else "MISSING" in
      incr idx;
      let (m, v) = f (n_of_int !cp) impl in
      if (not v) && !first_s = None then first_s := Some (!cp, m);
      if m <> impl && !first_m = None then first_m := Some (!cp, m)
    end;
    cp := !cp + step
  done;
  if !idx <> Array.length items && !first_m = None then first_m := Some (lo, "blob-length");
  match !first_s, !first_m with
  | Some (c, m), _ -> Printf.sprintf "S%d:%s 0" c m
  | None, Some (c, m) -> Printf.sprintf "M%d:%s 1" c m
  | None, None -> "= 1"

(* character kind of the case line -> sizeof(Char_T): 1, 2, 4 as is, 5 = wchar_t *)
let wd (s : string) : n = c20_width (n_of_string s)

let comp_uni line =
  match tokens line with
  | ["E"; w; cp; impl] ->
    let (m, v) = one_e (wd w) (n_of_string cp) impl in
    m ^ " " ^ fmt_bool v
  | ["J"; w; k1; k2; cp; pre; post; impl] ->
    let (m, v) = one_j (wd w) (ecase_of_int (int_of_string k1)) (ecase_of_int (int_of_string k2))
        (n_of_string cp) (parse_list pre) (parse_list post) impl in
    m ^ " " ^ fmt_bool v
  | ["T"; w; body; _impl] ->
    fmt_pres (c20_model_raw (wd w) (parse_list body)) ^ " 1"
  | ["R"; "E"; w; lo; hi; step; blob] ->
    let w = wd w in
    range (int_of_string lo) (int_of_string hi) (int_of_string step) blob (fun cp impl -> one_e w cp impl)
  | ["R"; "J"; w; k1; k2; lo; hi; step; pre; post; blob] ->
    let w = wd w and k1 = ecase_of_int (int_of_string k1) and k2 = ecase_of_int (int_of_string k2) in
    let pre = parse_list pre and post = parse_list post in
    range (int_of_string lo) (int_of_string hi) (int_of_string step) blob (fun cp impl -> one_j w k1 k2 cp pre post impl)
  | _ -> "BADCASE"

let () = main_loop comp_uni
