(* ---- component digit (C09, C10, C11) ----
   case lines (the last token is the implementation's result, appended by the check):
     P <w> <units>                               text -> number
     F <w> <fmt> <prec> <bits64> <pre>           double -> text     (G: float, bits32)
     I <w> <bitsw> <signed> <pattern> <pre>      integer -> text
     R <w> <bits64>   /  S <w> <bits32>          format(17 / 9) -> parse
   output: "<model result> <oracle code> [<reference text>]"
   oracle code: 1 ok, 0 violated, >= 2 precise predicate of a known-finding class *)
let err_s e = match e with
  | EOob s -> "ERR:oob" ^ string_of_n s
  | EFuel -> "ERR:fuel" | EBigOverflow -> "ERR:bigoverflow" | EShiftUB -> "ERR:shift" | EHuge -> "ERR:huge"
let pres_s p =
  if int_of_n p.p_kind = 0 then "0:0:0"
  else string_of_n p.p_kind ^ ":" ^ string_of_n p.p_bits ^ ":" ^ string_of_n p.p_off
(* "kind:bits:consumed" *)
let parse_pres s =
  match String.split_on_char ':' s with
  | [k; b; c] -> Some (n_of_string k, n_of_string b, n_of_string c)
  | _ -> None
let strip_diag s = match String.index_opt s ';' with Some i -> String.sub s 0 i | None -> s
let is_crash s = String.length s >= 5 && String.sub s 0 5 = "CRASH"

let comp_digit line =
  match tokens line with
  | ["P"; _; units; impl] ->
    let content = parse_list units in
    let m = (match string_to_number content with Ok p -> pres_s p | Err e -> err_s e) in
    let impl = strip_diag impl in
    let code = if is_crash impl then "0" else
      (match parse_pres impl with
       | Some (k, b, c) -> string_of_n (c09_oracle content k b c)
       | None -> "0") in
    m ^ " " ^ code
  | [op; _; fmt; prec; bits; pre; impl] when op = "F" || op = "G" ->
    let fi, ff = if op = "F" then finfo_double, fmt_double else finfo_float, fmt_float in
    let fmt = n_of_string fmt and prec = n_of_string prec and bits = n_of_string bits and pre = parse_list pre in
    let m = (match real_to_string fi pre bits prec fmt with Ok l -> fmt_list l | Err e -> err_s e) in
    let impl = strip_diag impl in
    let code = if is_crash impl then "0" else string_of_n (c10_real_oracle ff pre bits prec fmt (parse_list impl)) in
    m ^ " " ^ code ^ " " ^ fmt_list (c10_reference ff bits prec fmt)
  | ["I"; _; w; sg; pat; pre; impl] ->
    let w = n_of_string w and sg = (sg = "1") and pat = n_of_string pat and pre = parse_list pre in
    let m = fmt_list (int_number_to_string pre w sg pat) in
    let impl = strip_diag impl in
    let code = if is_crash impl then "0" else string_of_n (c10_int_oracle pre w sg pat (parse_list impl)) in
    m ^ " " ^ code
  | [op; _; bits; impl] when op = "R" || op = "S" ->
    let dbl = (op = "R") in
    let bits = n_of_string bits in
    let m = (match roundtrip (if dbl then finfo_double else finfo_float) (n_of_int (if dbl then 17 else 9)) bits with
             | Ok (txt, p) -> fmt_list txt ^ "|" ^ pres_s p
             | Err e -> err_s e) in
    let impl = strip_diag impl in
    let code = if is_crash impl then "0" else
      (match String.split_on_char '|' impl with
       | [_; pr] -> (match parse_pres pr with
                     | Some (k, b, _) -> string_of_n (if dbl then c11_double_oracle bits k b else c11_float_oracle bits k b)
                     | None -> "0")
       | _ -> "0") in
    m ^ " " ^ code
  | ["Q"; m; e; _] | ["Q"; m; e] ->
    (* measurement only: is (mantissa, negative decimal exponent) inside the class of c09_neg_power_one_ulp_guarded? *)
    (if pnt_guard (n_of_string m) (n_of_string e) then "1" else "0") ^ " 1"
  | _ -> "BADCASE 0"

let () = main_loop comp_digit
