(* driver.ml -- runs the extracted Coq model (model.ml) on case lines.
   usage: mdriver <component>     one case per stdin line, one result per stdout line.
   Numbers cross the boundary as decimal text; inside they are the extracted
   inductive types (positive / N / Z / nat), never OCaml ints. *)
open Model

(* ---- conversions ---- *)
let rec pos_of_int (i : int) : positive =
  if i = 1 then XH else if i land 1 = 0 then XO (pos_of_int (i lsr 1)) else XI (pos_of_int (i lsr 1))
let n_of_int (i : int) : n = if i = 0 then N0 else Npos (pos_of_int i)
let rec int_of_pos (p : positive) : int =
  match p with XH -> 1 | XO q -> 2 * int_of_pos q | XI q -> 2 * int_of_pos q + 1
let int_of_n (x : n) : int = match x with N0 -> 0 | Npos p -> int_of_pos p
let rec nat_of_int (i : int) : nat = if i = 0 then O else S (nat_of_int (i - 1))
let rec int_of_nat (x : nat) : int = match x with O -> 0 | S y -> 1 + int_of_nat y

(* decimal strings <-> N for values beyond 62 bits *)
let n_of_string (s : string) : n =
  let ten = n_of_int 10 in
  let r = ref N0 in
  String.iter (fun c -> r := N.add (N.mul !r ten) (n_of_int (Char.code c - 48))) s;
  !r
let string_of_n (x : n) : string =
  (* via repeated division by 10^9 on the extracted type *)
  let base = n_of_int 1000000000 in
  let rec go x acc =
    match x with
    | N0 -> acc
    | _ ->
      let (q, r) = N.div_eucl x base in
      (match q with
       | N0 -> string_of_int (int_of_n r) :: acc
       | _ -> go q (Printf.sprintf "%09d" (int_of_n r) :: acc))
  in
  match x with N0 -> "0" | _ -> String.concat "" (go x [])

let parse_list (s : string) : n list =
  if s = "-" || s = "" then [] else List.map (fun t -> n_of_string t) (String.split_on_char ',' s)
let fmt_list (l : n list) : string =
  match l with [] -> "-" | _ -> String.concat "," (List.map string_of_n l)
let fmt_bool b = if b then "1" else "0"
let tokens (line : string) : string list =
  List.filter (fun t -> t <> "") (String.split_on_char ' ' line)

(* ---- components ---- *)

(* esc: "<auto> <w> <kind> <units> <impl_out>"  ->  "<model_out> <oracle verdict on impl_out>"
   auto: 0 = build configured off, 2 = default build (model follows the generated
   tables; the oracle demands the documented default, i.e. escaping on) *)
let comp_esc line =
  match tokens line with
  | [a; w; kind; s; out] ->
    let a = n_of_string a and w = n_of_string w and kind = n_of_string kind and s = parse_list s in
    let m = c03_emit a kind w s in
    let oa = (match a with N0 -> N0 | _ -> n_of_int 1) in
    let verdict = if out = "CRASH" then false else c03_oracle_kind oa kind w s (parse_list out) in
    fmt_list m ^ " " ^ fmt_bool verdict
  | _ -> "BADCASE"

let () =
  let comp = if Array.length Sys.argv > 1 then Sys.argv.(1) else "" in
  let f =
    match comp with
    | "esc" -> comp_esc
    | _ -> (fun _ -> "UNKNOWN-COMPONENT")
  in
  try
    while true do
      let line = input_line stdin in
      print_string (f line);
      print_char '\n'
    done
  with End_of_file -> ()
