(* trender.ml -- glue for the renderer model instance (component tparse, C01).
   case: "<w> <auto> <template units> <value tokens>"  ->  "<model output units> <verdict>"
   value tokens as in ocaml/tmpl.ml (separated by '|'; unit lists by '.'; "_" = empty).
   The output is what render_jv appends to an empty stream (RERR:<class>:<site> on a model error);
   verdict 1 iff the model rendered without error (the safety statement of TrenderProofs.v). *)
let units (s : string) : n list =
  if s = "_" then [] else List.map n_of_string (String.split_on_char '.' s)

exception Bad of string

let parse_value (tk : string array) (pos : int ref) : jv =
  let next () = let t = tk.(!pos) in incr pos; t in
  let rec value () =
    match next () with
    | "U" -> JUndef | "Z" -> JNull | "T" -> JTrue | "F" -> JFalse
    | "N" -> JNat (n_of_string (next ()))
    | "I" -> JInt (z_of_string (next ()))
    | "R" -> jv_of_numeral (units (next ()))   (* the JSON numeral; Digit::StringToNumber (model) decides kind and bits *)
    | "S" -> JStr (units (next ()))
    | "A" -> let c = int_of_string (next ()) in JArr (List.init c (fun _ -> value ()))
    | "O" -> let c = int_of_string (next ()) in
      JObj (List.init c (fun _ -> let k = units (next ()) in let v = value () in (k, v)))
    | t -> raise (Bad ("value token " ^ t))
  in value ()

let dump_rerr (e : rerr) : string =
  match e with
  | RSlice s -> "RERR:slice:" ^ string_of_n s
  | RRead s -> "RERR:read:" ^ string_of_n s
  | RIndex s -> "RERR:index:" ^ string_of_n s
  | RFuel -> "RERR:fuel:0"

let comp_trender line =
  try
    match tokens line with
    | w :: a :: t :: v :: _ ->
      let v = parse_value (Array.of_list (String.split_on_char '|' v)) (ref 0) in
      (match render_jv (auto_of (n_of_string a)) (n_of_string w) (parse_list t) v with
       | ROk out -> fmt_list out ^ " 1"
       | RError e -> dump_rerr e ^ " 0")
    | _ -> "BADCASE"
  with Bad s -> "BADCASE:" ^ s | Invalid_argument s -> "BADCASE:" ^ s | Failure s -> "BADCASE:" ^ s

let () = main_loop comp_trender
