(* ---- component json (C05, C06, C07, C08) ----
   case lines (the implementation's result is the last token):
     P <w> <units> <impl>          any text: M = dump (parse units) or ERR:..; S = impl did not crash
     X <w> <units> <impl>          a damaged document: S = (impl = U)
     G <w> <units> <cst> <impl>    a generated document: S = (impl = dump (cdenote cst)); the
                                   model side also checks cval_wf cst and cprint cst = units
     S <w> <tree> <impl>           stringify: impl = text|dump|fix; M likewise from the model;
                                   S = (dump = dump (normalize tree)) && fix = 1 && rfc_ok text
     R <w> <tree> <impl>           same with doubles in the tree (r<bits in hex>): the model prints them with
                                   DigitModel.real_to_string (17 digits, Default format: JsonDigitC08.dtext); numbers
                                   are compared up to their kind; S also wants, per double leaf, the hypotheses of
                                   the C08 theorems on reals that are not proved from the formatter model:
                                   finite, starts with a digit (head_digitb), RFC number (rfc_numb)
     H <w> <t1/t2/..> <impl>       texts parsed one after the other through ONE scratch stream; impl = dump1/dump2/..
     Z ...                         deep-nesting runs are judged by the check itself *)

let buf_units b (l : n list) =
  let first = ref true in
  List.iter (fun u -> if not !first then Buffer.add_char b '.'; first := false; Buffer.add_string b (string_of_n u)) l

let rec dump_jv b (v : jv) =
  match v with
  | JUndef -> Buffer.add_char b 'U'
  | JNull -> Buffer.add_char b 'N'
  | JTrue -> Buffer.add_char b 'T'
  | JFalse -> Buffer.add_char b 'F'
  | JNat x -> Buffer.add_char b 'u'; Buffer.add_string b (string_of_n x)
  | JInt x -> Buffer.add_char b 'i'; Buffer.add_string b (string_of_z x)
  | JReal _ -> Buffer.add_char b 'R'
  | JStr s -> Buffer.add_char b 'S'; buf_units b s
  | JArr l ->
    Buffer.add_char b '[';
    List.iteri (fun i x -> if i > 0 then Buffer.add_char b ';'; dump_jv b x) l;
    Buffer.add_char b ']'
  | JObj l ->
    Buffer.add_char b '{';
    List.iteri (fun i (k, x) -> if i > 0 then Buffer.add_char b ';'; Buffer.add_char b 'K'; buf_units b k; Buffer.add_char b ':'; dump_jv b x) l;
    Buffer.add_char b '}'

let dump (v : jv) : string = let b = Buffer.create 256 in dump_jv b v; Buffer.contents b

let dump_res (r : jv jres) : string =
  match r with
  | JOk v -> dump v
  | JErr (OOB s) -> "ERR:OOB:" ^ string_of_n s
  | JErr (Past s) -> "ERR:PAST:" ^ string_of_n s
  | JErr Fuel -> "ERR:FUEL"

(* ---- tree terms of kind S / R (same grammar as cpp/drv_json.cpp) ---- *)
exception Bad
let units_tok (s : string) : n list = parse_list (if s = "" then "-" else s)
let rest s = String.sub s 1 (String.length s - 1)

let n_of_hex (s : string) : n =
  let sixteen = n_of_int 16 in
  let r = ref N0 in
  String.iter (fun c ->
      let d = match c with '0' .. '9' -> Char.code c - 48 | 'a' .. 'f' -> Char.code c - 87 | 'A' .. 'F' -> Char.code c - 55 | _ -> raise Bad in
      r := N.add (N.mul !r sixteen) (n_of_int d)) s;
  !r
let real_leaves : n list ref = ref []

let rec tree (tk : string array) (pos : int ref) : vt =
  if !pos >= Array.length tk then raise Bad;
  let t = tk.(!pos) in
  incr pos;
  if t = "" then raise Bad;
  match t.[0] with
  | 'A' ->
    let cnt = int_of_string (rest t) in
    let l = ref [] in
    for _ = 1 to cnt do l := tree tk pos :: !l done;
    VArr (List.rev !l)
  | 'O' ->
    let cnt = int_of_string (rest t) in
    let l = ref [] in
    for _ = 1 to cnt do
      if !pos >= Array.length tk then raise Bad;
      let k = tk.(!pos) in
      incr pos;
      let v = tree tk pos in
      (match k.[0] with
       | 'K' -> l := (units_tok (rest k), v) :: !l
       | 'D' -> l := (units_tok (rest k), VUndef) :: !l     (* inserted, then removed *)
       | _ -> raise Bad)
    done;
    VObj (List.rev !l)
  | 'S' -> VStr (units_tok (rest t))
  | 'u' -> VNat (n_of_string (rest t))
  | 'i' -> VInt (z_of_string (rest t))
  | 'r' -> let bits = n_of_hex (rest t) in real_leaves := bits :: !real_leaves; VReal (dtext bits)
  | 'T' -> VTrue
  | 'F' -> VFalse
  | 'N' -> VNull
  | 'X' -> VUndef
  | 'P' -> VPtr (tree tk pos)
  | _ -> raise Bad

(* ---- concrete syntax trees of kind G ----
   n t f | N<digit units> | M<digit units> | R<units> | S<k>;c1;..;ck |
   A<n>;W<w0>;(W<wb>;cval;W<wa>)* | O<n>;W<w0>;(W<wb>;S<k>..;W<w1>;W<w2>;cval;W<wa>)*
   cchar: r<cp> | s<letter> | h<cp>:<upper> | p<cp>:<upper> *)
let next tk pos = if !pos >= Array.length tk then raise Bad; let t = tk.(!pos) in incr pos; t
let wstok tk pos = let t = next tk pos in if t = "" || t.[0] <> 'W' then raise Bad; units_tok (rest t)
let cchar_tok (t : string) : cchar =
  match t.[0] with
  | 'r' -> CRaw (n_of_string (rest t))
  | 's' -> CShort (n_of_string (rest t))
  | 'h' | 'p' ->
    (match String.split_on_char ':' (rest t) with
     | [a; b] -> if t.[0] = 'h' then CHex (n_of_string a, n_of_string b) else CPair (n_of_string a, n_of_string b)
     | _ -> raise Bad)
  | _ -> raise Bad
let cstr tk pos (t : string) : cchar list =
  let cnt = int_of_string (rest t) in
  let l = ref [] in
  for _ = 1 to cnt do l := cchar_tok (next tk pos) :: !l done;
  List.rev !l
let rec cst (tk : string array) (pos : int ref) : cval =
  let t = next tk pos in
  if t = "" then raise Bad;
  match t.[0] with
  | 'n' -> CNull
  | 't' -> CTrue
  | 'f' -> CFalse
  | 'N' -> CNatD (units_tok (rest t))
  | 'M' -> CNegD (units_tok (rest t))
  | 'R' -> CRealT (units_tok (rest t))
  | 'S' -> CStr (cstr tk pos t)
  | 'A' ->
    let cnt = int_of_string (rest t) in
    let w0 = wstok tk pos in
    let l = ref [] in
    for _ = 1 to cnt do
      let wb = wstok tk pos in
      let x = cst tk pos in
      let wa = wstok tk pos in
      l := ((wb, x), wa) :: !l
    done;
    CArr (w0, List.rev !l)
  | 'O' ->
    let cnt = int_of_string (rest t) in
    let w0 = wstok tk pos in
    let l = ref [] in
    for _ = 1 to cnt do
      let wb = wstok tk pos in
      let kt = next tk pos in
      if kt = "" || kt.[0] <> 'S' then raise Bad;
      let k = cstr tk pos kt in
      let w1 = wstok tk pos in
      let w2 = wstok tk pos in
      let x = cst tk pos in
      let wa = wstok tk pos in
      l := (((((wb, k), w1), w2), x), wa) :: !l
    done;
    CObj (w0, List.rev !l)
  | _ -> raise Bad

(* the two transliterations of Digit::stringToNumber (JsonModel.scan_number, DigitModel.string_to_number) must
   agree on every numeral of a generated document: kind, consumed length, integer value *)
let scanners_agree (txt : n list) : bool =
  let len l = List.length l in
  match scan_number txt, string_to_number txt with
  | JOk r, Ok p ->
    let consumed rest = n_of_int (len txt - len rest) in
    (match r with
     | NumNaN -> p.p_kind = qn_nan
     | NumNat (x, rest) -> p.p_kind = qn_natural && p.p_bits = x && p.p_off = consumed rest
     | NumInt (z, rest) ->
       p.p_kind = qn_integer && p.p_off = consumed rest &&
       (match z with
        | Zneg q -> N.add p.p_bits (Npos q) = n_of_string "18446744073709551616"
        | _ -> false)
     | NumReal rest -> p.p_kind = qn_real && p.p_off = consumed rest)
  | _, _ -> false

let rec cst_numerals (c : cval) : n list list =
  match c with
  | CNatD ds -> [ds]
  | CNegD ds -> [n_of_int 45 :: ds]
  | CRealT t -> [t]
  | CArr (_, items) -> List.concat_map (fun ((_, x), _) -> cst_numerals x) items
  | CObj (_, ms) -> List.concat_map (fun (((((_, _), _), _), x), _) -> cst_numerals x) ms
  | _ -> []

let split_semis (s : string) : string array = Array.of_list (String.split_on_char ';' s)

let comp_json line =
  try
    match tokens line with
    | [kind; w; payload; impl] when kind = "P" || kind = "X" ->
      let w = n_of_string w and units = parse_list payload in
      let m = dump_res (parse w units) in
      let crashed = String.length impl >= 5 && String.sub impl 0 5 = "CRASH" in
      let verdict =
        if kind = "X" then impl = "U"
        else not crashed in
      m ^ " " ^ fmt_bool verdict
    | [kind; w; payload; impl] when kind = "H" ->
      (* several texts through one scratch stream: M threads the stream (parse_history), the oracle
         wants every result to be the result for that text alone *)
      let w = n_of_string w in
      let texts = List.map parse_list (String.split_on_char '/' payload) in
      let m = String.concat "/" (List.map dump_res (parse_history w [] texts)) in
      let alone = String.concat "/" (List.map (fun t -> dump_res (parse w t)) texts) in
      m ^ " " ^ fmt_bool (impl = alone)
    | [kind; w; payload; term; impl] when kind = "G" ->
      let w = n_of_string w and units = parse_list payload in
      let tk = split_semis term in
      let c = cst tk (ref 0) in
      let m = dump_res (parse w units) in
      let is_ws u = List.mem (int_of_n u) [32; 9; 10; 13] in
      let rec strip l = match l with u :: t when is_ws u -> strip t | _ -> l in
      let body = List.rev (strip (List.rev (strip units))) in
      let spec_ok = cval_wf w c && is_container c && (cprint w c = body) in
      let expect = dump (cdenote w c) in
      if not (List.for_all scanners_agree (cst_numerals c)) then "SCANNER-MODELS-DISAGREE:JsonModel.scan_number-vs-DigitModel.string_to_number 1"
      else if not spec_ok then "SPEC-INCONSISTENT:generated-tree-is-not-wf-or-prints-differently 1"
      else m ^ " " ^ fmt_bool (impl = expect)
    | [kind; w; term; impl] when kind = "S" || kind = "R" ->
      let w = n_of_string w in
      let tk = split_semis term in
      real_leaves := [];
      let t = tree tk (ref 0) in
      let leaves_ok = List.for_all (fun b -> finite_bits b && head_digitb (dtext b) && rfc_numb (dtext b)) !real_leaves in
      let expect = dump (normalize t) in
      (match String.split_on_char '|' impl with
       | [itext; idump; ifix] ->
         let iunits = parse_list itext in
         (* with reals in the tree numbers are compared up to their kind: a double with an
            integral value reads back as an integer ("numbers equal in value" is C11's part) *)
         let numre = Str.regexp "\\(^\\|[[;:]\\)\\(u[0-9]+\\|i-?[0-9]+\\|R\\)" in
         let canon d = if kind = "R" then Str.global_replace numre "\\1#" d else d in
         let verdict = (canon idump = canon expect) && ifix = "1" && rfc_ok iunits && leaves_ok in
         let mtext = stringify t in
         let mparsed = parse w mtext in
         let mfix =
           (match mparsed with
            | JOk v -> if canon (dump v) = canon expect then "1" else "0"   (* second text = first: see the proofs; here: reparsed = normalize *)
            | _ -> ifix) in
         fmt_list mtext ^ "|" ^ dump_res mparsed ^ "|" ^ mfix ^ " " ^ fmt_bool verdict
       | _ -> "BADIMPL 0")
    | _ -> "BADCASE"
  with _ -> "BADCASE"

let () = main_loop comp_json
