(* seq.ml -- C14 glue.
   case line:  "<kind> <width> <op;op;...> <impl_out>"   kind in ai | as | s | t | v
               "m <simd> <shift> <n> <src> <dst> <impl_out>"   Memory::Copy on bytes
               "z <simd> <shift> <n> <dst> <impl_out>"         Memory::SetToZero
   prints "<model_out> <verdict>"; verdict = impl_out equals the list specification's trace.
   trace: steps joined by ';', a step is  <out>|<obj0>|<obj1>|<obj2>  *)

let nat s = nat_of_int (int_of_string s)
let fields s = String.split_on_char ':' s
let bool_of s = s <> "0"

let fmt_elem_n (x : n) = string_of_n x
let fmt_elem_s (l : n list) =
  match l with [] -> "e" | _ -> String.concat "." (List.map string_of_n l)
let fmt_arr fe sep l = match l with [] -> "-" | _ -> String.concat sep (List.map fe l)

let fmt_out fo o =
  match o with
  | ONone -> "n"
  | OBool b -> if b then "b1" else "b0"
  | OStr (l, t) -> "s" ^ fo l ^ (if t then "" else "!")

let npool = 3
let idx = [O; S O; S (S O)]

(* generic history runner: model trace and specification trace *)
let run_hist step spec dumpw dumps w0 s0 fo (ops : 'op list) : string * string =
  let bm = Buffer.create 256 and bs = Buffer.create 256 in
  let first = ref true in
  let rec go (w : 'w option) s ops =
    match ops with
    | [] -> ()
    | op :: r ->
      if not !first then (Buffer.add_char bs ';'; (match w with Some _ -> Buffer.add_char bm ';' | None -> ()));
      first := false;
      let (s', so) = spec s op in
      Buffer.add_string bs (fmt_out fo so);
      List.iter (fun k -> Buffer.add_char bs '|'; Buffer.add_string bs (dumps s' k)) idx;
      let w' =
        match w with
        | None -> None
        | Some w0 ->
          (match step w0 op with
           | Error e ->
             Buffer.add_string bm (match e with UAF -> "ERR:UAF" | OOB -> "ERR:OOB" | NullDeref -> "ERR:NULL");
             None
           | Ok (w1, o) ->
             Buffer.add_string bm (fmt_out fo o);
             List.iter (fun k -> Buffer.add_char bm '|'; Buffer.add_string bm (dumpw w1 k)) idx;
             Some w1)
      in
      go w' s' r
  in
  go (Some w0) s0 ops;
  (Buffer.contents bm, Buffer.contents bs)

let units s = parse_list s

let parse_aop (pe : string -> 'a) tok : 'a aop =
  match fields tok with
  | ["ANewSized"; i; n; b] -> ANewSized (nat i, nat n, bool_of b)
  | ["ACopyCtor"; i; j] -> ACopyCtor (nat i, nat j)
  | ["AMoveCtor"; i; j] -> AMoveCtor (nat i, nat j)
  | ["AMoveAssign"; i; j] -> AMoveAssign (nat i, nat j)
  | ["ACopyAssign"; i; j] -> ACopyAssign (nat i, nat j)
  | ["AAppendMove"; i; j] -> AAppendMove (nat i, nat j)
  | ["AAppendCopy"; i; j] -> AAppendCopy (nat i, nat j)
  | ["AAppendItem"; i; x] -> AAppendItem (nat i, pe x)
  | ["AAppendOwn"; i; k] -> AAppendOwn (nat i, nat k)
  | ["AClear"; i] -> AClear (nat i)
  | ["AReset"; i] -> AReset (nat i)
  | ["ADetach"; i] -> ADetach (nat i)
  | ["AReserve"; i; n; b] -> AReserve (nat i, nat n, bool_of b)
  | ["AResize"; i; n] -> AResize (nat i, nat n)
  | ["AResizeInit"; i; n] -> AResizeInit (nat i, nat n)
  | ["AExpect"; i; n] -> AExpect (nat i, nat n)
  | ["ACompress"; i] -> ACompress (nat i)
  | ["ADrop"; i; n] -> ADrop (nat i, nat n)
  | ["ASwap"; i; a; b] -> ASwap (nat i, nat a, nat b)
  | ["AIter"; i] -> AIter (nat i)
  | _ -> failwith ("bad op " ^ tok)

let parse_sop tok : sop =
  match fields tok with
  | ["SDefault"; i] -> SDefault (nat i)
  | ["SNewLen"; i; l] -> SNewLen (nat i, units l)
  | ["SNewCopy"; i; l] -> SNewCopy (nat i, units l)
  | ["SNewCstr"; i; l] -> SNewCstr (nat i, units l)
  | ["SNewAdopt"; i; l] -> SNewAdopt (nat i, units l)
  | ["SCopyCtor"; i; j] -> SCopyCtor (nat i, nat j)
  | ["SMoveCtor"; i; j] -> SMoveCtor (nat i, nat j)
  | ["SMoveAssign"; i; j] -> SMoveAssign (nat i, nat j)
  | ["SCopyAssign"; i; j] -> SCopyAssign (nat i, nat j)
  | ["SAssignCstr"; i; l] -> SAssignCstr (nat i, units l)
  | ["SAssignOwn"; i; o] -> SAssignOwn (nat i, nat o)
  | ["SAppendMove"; i; j] -> SAppendMove (nat i, nat j)
  | ["SAppendObj"; i; j] -> SAppendObj (nat i, nat j)
  | ["SAppendCstr"; i; l] -> SAppendCstr (nat i, units l)
  | ["SAppendChar"; i; c] -> SAppendChar (nat i, n_of_string c)
  | ["SWrite"; i; l] -> SWrite (nat i, units l)
  | ["SPlus"; i; j; k; mv] -> SPlus (nat i, nat j, nat k, bool_of mv)
  | ["SPlusCstr"; i; j; l] -> SPlusCstr (nat i, nat j, units l)
  | ["STrim"; i; j] -> STrim (nat i, nat j)
  | ["SEqObj"; i; j] -> SEqObj (nat i, nat j)
  | ["SEqCstr"; i; l] -> SEqCstr (nat i, units l)
  | ["SEqNull"; i] -> SEqNull (nat i)
  | ["SIsEqual"; i; l] -> SIsEqual (nat i, units l)
  | ["SReset"; i] -> SReset (nat i)
  | ["SDetach"; i] -> SDetach (nat i)
  | ["SStepBack"; i; n] -> SStepBack (nat i, nat n)
  | ["SReverse"; i; n] -> SReverse (nat i, nat n)
  | ["SInsertAt"; i; c; n] -> SInsertAt (nat i, n_of_string c, nat n)
  | ["SIter"; i] -> SIter (nat i)
  | ["SLast"; i] -> SLast (nat i)
  | ["SIsEmpty"; i] -> SIsEmpty (nat i)
  | ["SStreamOut"; i] -> SStreamOut (nat i)
  | _ -> failwith ("bad op " ^ tok)

let parse_top tok : top =
  match fields tok with
  | ["TNew"; i; n] -> TNew (nat i, nat n)
  | ["TCopyCtor"; i; j] -> TCopyCtor (nat i, nat j)
  | ["TMoveCtor"; i; j] -> TMoveCtor (nat i, nat j)
  | ["TMoveAssign"; i; j] -> TMoveAssign (nat i, nat j)
  | ["TCopyAssign"; i; j] -> TCopyAssign (nat i, nat j)
  | ["TAssignExt"; i; l] -> TAssignExt (nat i, units l)
  | ["TAssignCstr"; i; l] -> TAssignCstr (nat i, units l)
  | ["TAppendChar"; i; c] -> TAppendChar (nat i, n_of_string c)
  | ["TAppendObj"; i; j] -> TAppendObj (nat i, nat j)
  | ["TAppendExt"; i; l] -> TAppendExt (nat i, units l)
  | ["TAppendCstr"; i; l] -> TAppendCstr (nat i, units l)
  | ["TEqObj"; i; j] -> TEqObj (nat i, nat j)
  | ["TEqExt"; i; l] -> TEqExt (nat i, units l)
  | ["TEqCstr"; i; l] -> TEqCstr (nat i, units l)
  | ["TClear"; i] -> TClear (nat i)
  | ["TReset"; i] -> TReset (nat i)
  | ["TDetach"; i] -> TDetach (nat i)
  | ["TStepBack"; i; n] -> TStepBack (nat i, nat n)
  | ["TReverse"; i; n] -> TReverse (nat i, nat n)
  | ["TInsertAt"; i; c; n] -> TInsertAt (nat i, n_of_string c, nat n)
  | ["TSetLength"; i; n; c] -> TSetLength (nat i, nat n, n_of_string c)
  | ["TBuffer"; i; l] -> TBuffer (nat i, units l)
  | ["TExpect"; i; n] -> TExpect (nat i, nat n)
  | ["TReserve"; i; n] -> TReserve (nat i, nat n)
  | ["TGetString"; i] -> TGetString (nat i)
  | ["TGetStringView"; i] -> TGetStringView (nat i)
  | ["TInsertNull"; i] -> TInsertNull (nat i)
  | ["TIter"; i] -> TIter (nat i)
  | ["TStreamOut"; i] -> TStreamOut (nat i)
  | _ -> failwith ("bad op " ^ tok)

let parse_vop tok : vop =
  match fields tok with
  | ["VNew"; i; l] -> VNew (nat i, units l)
  | ["VNewCstr"; i; l] -> VNewCstr (nat i, units l)
  | ["VCopy"; i; j] -> VCopy (nat i, nat j)
  | ["VMove"; i; j] -> VMove (nat i, nat j)
  | ["VReset"; i] -> VReset (nat i)
  | ["VEqObj"; i; j] -> VEqObj (nat i, nat j)
  | ["VEqCstr"; i; l] -> VEqCstr (nat i, units l)
  | ["VIsEqual"; i; l] -> VIsEqual (nat i, units l)
  | ["VIter"; i] -> VIter (nat i)
  | ["VStreamOut"; i] -> VStreamOut (nat i)
  | ["VIsEmpty"; i] -> VIsEmpty (nat i)
  | _ -> failwith ("bad op " ^ tok)

let dump_with dumpf fmt w k = match dumpf w k with Ok l -> fmt l | Error _ -> "ERR"
let dump_str w k =
  (match dumpN w k with Ok l -> fmt_list l | Error _ -> "ERR")
  ^ (match term_ok w k with Ok true -> "" | _ -> "!")

(* an Array<String> element "a.b.c" or "e" *)
let parse_elem_s s = if s = "e" || s = "-" then [] else List.map n_of_string (String.split_on_char '.' s)
let parse_elem_n s = n_of_string s

let comp_seq line =
  try
    match tokens line with
    | [kind; _w; ops; impl] when kind <> "m" && kind <> "z" ->
      let optoks = List.filter (fun t -> t <> "") (String.split_on_char ';' ops) in
      let (m, s) =
        match kind with
        | "ai" ->
          run_hist astepN aspecN (dump_with dumpN (fmt_arr fmt_elem_n ",")) (fun s k -> fmt_arr fmt_elem_n "," (s k))
            world0N spec0 (fmt_arr fmt_elem_n ",") (List.map (parse_aop parse_elem_n) optoks)
        | "as" ->
          run_hist astepS aspecS (dump_with dumpS (fmt_arr fmt_elem_s "/")) (fun s k -> fmt_arr fmt_elem_s "/" (s k))
            world0S spec0 (fmt_arr fmt_elem_s "/") (List.map (parse_aop parse_elem_s) optoks)
        | "s" ->
          run_hist sstep sspec dump_str (fun s k -> fmt_list (s k)) world0N spec0 fmt_list (List.map parse_sop optoks)
        | "t" ->
          run_hist tstep tspec (dump_with dumpN fmt_list) (fun s k -> fmt_list (s k)) world0N spec0 fmt_list (List.map parse_top optoks)
        | "v" ->
          run_hist vstep vspec (dump_with dumpN fmt_list) (fun s k -> fmt_list (s k)) world0N spec0 fmt_list (List.map parse_vop optoks)
        | _ -> failwith "kind"
      in
      m ^ " " ^ fmt_bool (impl = s)
    | ["m"; simd; shift; n; src; dst; impl] ->
      let src = parse_list src and dst = parse_list dst and n = nat n in
      let m = (match copy_blocks (bool_of simd) (nat shift) n src dst with Ok l -> fmt_list l | Error _ -> "ERR") in
      let s = fmt_list (app (firstn n src) (skipn n dst)) in
      m ^ " " ^ fmt_bool (impl = s)
    | ["z"; simd; shift; n; dst; impl] ->
      let dst = parse_list dst and n = nat n in
      let m = (match zero_blocks (bool_of simd) (nat shift) n dst with Ok l -> fmt_list l | Error _ -> "ERR") in
      let s = fmt_list (app (repeat N0 n) (skipn n dst)) in
      m ^ " " ^ fmt_bool (impl = s)
    | _ -> "BADCASE 0"
  with Failure m -> "BADCASE:" ^ (String.map (fun c -> if c = ' ' then '_' else c) m) ^ " 0"

let () = main_loop comp_seq
