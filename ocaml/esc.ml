(* ---- components ---- *)

(* esc: "<auto> <w> <kind> <units> <impl_out>"  ->  "<model_out> <oracle verdict on impl_out>"
   auto: 0 = build configured off, 2 = default build (model follows the generated
   tables; the oracle demands the documented default, i.e. escaping on) *)
let comp_esc line =
  match tokens line with
  | [a; w; kind; s; out] ->
    let a = n_of_string a and w = n_of_string w and kind = n_of_string kind and s = parse_list s in
    let m = c03_emit a kind w s in
    let oa = (match a with N0 -> N0 | _ -> n_of_int 1) in
    let verdict = if out = "CRASH" then false else c03_oracle_kind oa kind w s (parse_list out) in
    fmt_list m ^ " " ^ fmt_bool verdict
  | _ -> "BADCASE"

let () = main_loop comp_esc
