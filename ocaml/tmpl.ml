(* tmpl.ml -- glue for the template model (C02, C17).
   case: "<mode> <auto> <w> <ast tokens> <value tokens> [<impl_out>]"
     mode p : print  -> the printed template units
     mode j : judge  -> "<model_out> <verdict>"   (model_out = render_ast; verdict: impl_out = expand ast value)
   tokens are separated by '|' ; unit lists by '.' ; "_" is the empty list. *)
let units (s : string) : n list =
  if s = "_" then [] else List.map n_of_string (String.split_on_char '.' s)

exception Bad of string

let parse_value (tk : string array) (pos : int ref) : jv =
  let next () = let t = tk.(!pos) in incr pos; t in
  let rec value () =
    match next () with
    | "U" -> JUndef | "Z" -> JNull | "T" -> JTrue | "F" -> JFalse
    | "N" -> JNat (n_of_string (next ()))
    | "I" -> JInt (z_of_string (next ()))
    | "R" -> jv_of_numeral (units (next ()))   (* the JSON numeral; Digit::StringToNumber (model) decides kind and bits *)
    | "S" -> JStr (units (next ()))
    | "A" -> let c = int_of_string (next ()) in JArr (List.init c (fun _ -> value ()))
    | "O" -> let c = int_of_string (next ()) in
      JObj (List.init c (fun _ -> let k = units (next ()) in let v = value () in (k, v)))
    | t -> raise (Bad ("value token " ^ t))
  in value ()

let parse_ast (tk : string array) (pos : int ref) : tnode list =
  let next () = let t = tk.(!pos) in incr pos; t in
  let path () =
    let nm = units (next ()) in
    let c = int_of_string (next ()) in
    (nm, List.init c (fun _ -> units (next ()))) in
  let rec expr () =
    match next () with
    | "n" -> ENum (n_of_string (next ()))
    | "x" -> EVar (path ())
    | "b" -> let op = n_of_string (next ()) in let a = expr () in let b = expr () in EBin (op, a, b)
    | t -> raise (Bad ("expr token " ^ t)) in
  let rec node () =
    match next () with
    | "t" -> TText (units (next ()))
    | "v" -> TVar (path ())
    | "r" -> TRaw (path ())
    | "m" -> TMath (expr ())
    | "s" -> let p = path () in TSVar (p, nodes ())
    | "i" -> let c = expr () in let t = nodes () in
      let f = (match next () with "1" -> Some (nodes ()) | _ -> None) in TIIf (c, t, f)
    | "f" -> let c = expr () in let body = nodes () in
      let cm = int_of_string (next ()) in
      let more = List.init cm (fun _ ->
        let e = (match next () with "1" -> Some (expr ()) | _ -> None) in
        let b = nodes () in (e, b)) in
      TIf (c, body, more)
    | "l" -> let set = (match next () with "1" -> Some (path ()) | _ -> None) in
      let v = units (next ()) in let g = units (next ()) in let so = n_of_string (next ()) in
      let body = nodes () in TLoop (set, v, g, so, body)
    | t -> raise (Bad ("node token " ^ t))
  and nodes () = let c = int_of_string (next ()) in List.init c (fun _ -> node ())
  in nodes ()

let comp_tmpl line =
  try
    match tokens line with
    | mode :: a :: w :: ast :: rest ->
      let ast = parse_ast (Array.of_list (String.split_on_char '|' ast)) (ref 0) in
      if mode = "p" then fmt_list (print_nodes ast)
      else if mode = "c" then begin
        (* self-consistency of the two model layers on this case (a test of the theorem render_ast_expand) *)
        match rest with
        | v :: _ ->
          let v = parse_value (Array.of_list (String.split_on_char '|' v)) (ref 0) in
          let au = auto_of (n_of_string a) and ww = n_of_string w in
          fmt_bool (list_eqb (render_ast au ww v ast) (expand au ww v ast))
        | _ -> "BADCASE"
      end
      else begin
        match rest with
        | [v; out] ->
          let v = parse_value (Array.of_list (String.split_on_char '|' v)) (ref 0) in
          (* M: the implementation layer (tag tree + slices); S: the reference interpreter *)
          let m = render_ast (auto_of (n_of_string a)) (n_of_string w) v ast in
          let spec = expand (auto_of (n_of_string a)) (n_of_string w) v ast in
          let verdict = if out = "CRASH" then false else list_eqb spec (parse_list out) in
          fmt_list m ^ " " ^ fmt_bool verdict
        | _ -> "BADCASE"
      end
    | _ -> "BADCASE"
  with Bad s -> "BADCASE:" ^ s | Invalid_argument s -> "BADCASE:" ^ s | Failure s -> "BADCASE:" ^ s

let () = main_loop comp_tmpl
