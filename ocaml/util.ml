(* util.ml -- shared prefix of every extracted-model driver.  The build
   concatenates util.ml and <component>.ml into driver.ml and links it with the
   component's extracted model.ml.  One case per stdin line, one result per
   stdout line.
   Numbers cross the boundary as decimal text; inside they are the extracted
   inductive types (positive / N / Z / nat), never OCaml ints. *)
open Model

(* ---- conversions ---- *)
let rec pos_of_int (i : int) : positive =
  if i = 1 then XH else if i land 1 = 0 then XO (pos_of_int (i lsr 1)) else XI (pos_of_int (i lsr 1))
let n_of_int (i : int) : n = if i = 0 then N0 else Npos (pos_of_int i)
let rec int_of_pos (p : positive) : int =
  match p with XH -> 1 | XO q -> 2 * int_of_pos q | XI q -> 2 * int_of_pos q + 1
let int_of_n (x : n) : int = match x with N0 -> 0 | Npos p -> int_of_pos p
let rec nat_of_int (i : int) : nat = if i = 0 then O else S (nat_of_int (i - 1))
let rec int_of_nat (x : nat) : int = match x with O -> 0 | S y -> 1 + int_of_nat y

(* decimal strings <-> N for values beyond 62 bits *)
let n_of_string (s : string) : n =
  let ten = n_of_int 10 in
  let r = ref N0 in
  String.iter (fun c -> r := N.add (N.mul !r ten) (n_of_int (Char.code c - 48))) s;
  !r
let string_of_n (x : n) : string =
  (* via repeated division by 10^9 on the extracted type *)
  let base = n_of_int 1000000000 in
  let rec go x acc =
    match x with
    | N0 -> acc
    | _ ->
      let (q, r) = N.div_eucl x base in
      (match q with
       | N0 -> string_of_int (int_of_n r) :: acc
       | _ -> go q (Printf.sprintf "%09d" (int_of_n r) :: acc))
  in
  match x with N0 -> "0" | _ -> String.concat "" (go x [])

let parse_list (s : string) : n list =
  if s = "-" || s = "" then [] else List.map (fun t -> n_of_string t) (String.split_on_char ',' s)
let fmt_list (l : n list) : string =
  match l with [] -> "-" | _ -> String.concat "," (List.map string_of_n l)
let fmt_bool b = if b then "1" else "0"
let tokens (line : string) : string list =
  List.filter (fun t -> t <> "") (String.split_on_char ' ' line)


let z_of_string (s : string) : z =
  if String.length s > 0 && s.[0] = '-' then Z.opp (Z.of_N (n_of_string (String.sub s 1 (String.length s - 1))))
  else Z.of_N (n_of_string s)
let string_of_z (x : z) : string =
  match x with
  | Z0 -> "0"
  | Zpos p -> string_of_n (Npos p)
  | Zneg p -> "-" ^ string_of_n (Npos p)
let parse_zlist (s : string) : z list =
  if s = "-" || s = "" then [] else List.map z_of_string (String.split_on_char ',' s)
let fmt_zlist (l : z list) : string =
  match l with [] -> "-" | _ -> String.concat "," (List.map string_of_z l)

let main_loop (f : string -> string) =
  try
    while true do
      let line = input_line stdin in
      print_string (f line);
      print_char '\n'
    done
  with End_of_file -> ()
